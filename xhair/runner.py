"""Runs CrossHair on the harness files and turns its report into obligation records."""
from __future__ import annotations

import ast
import os
import re
import subprocess
import sys
import time

HERE = os.path.dirname(os.path.abspath(__file__))
ROOT = os.path.dirname(HERE)


_ARGNAMES = {}


def run_crosshair(path, per_condition_timeout=60, per_path_timeout=None, wall_timeout=600, only=None):
    """-> {function name: (status, message)} with status in confirmed / refuted / unknown"""
    src = open(path).read()
    tree = ast.parse(src)
    spans = [(n.lineno, n.end_lineno, n.name) for n in ast.walk(tree) if isinstance(n, ast.FunctionDef)]
    for n in ast.walk(tree):
        if isinstance(n, ast.FunctionDef):
            _ARGNAMES[n.name] = [a.arg for a in n.args.args]
    targets = [path] if only is None else [f"{path}:{ln}" for ln in only]
    cmd = [sys.executable, "-m", "crosshair", "check", "--report_all", f"--per_condition_timeout={per_condition_timeout}"]
    if per_path_timeout:
        cmd.append(f"--per_path_timeout={per_path_timeout}")
    cmd += targets
    env = dict(os.environ)
    env["PYTHONPATH"] = ROOT + os.pathsep + env.get("PYTHONPATH", "")
    t0 = time.time()
    try:
        p = subprocess.run(cmd, capture_output=True, text=True, timeout=wall_timeout, env=env, cwd=ROOT)
        out = p.stdout + "\n" + p.stderr
    except subprocess.TimeoutExpired as e:
        out = (e.stdout or "") + "\n" + (e.stderr or "") if isinstance(e.stdout, str) else ""
        out += "\nWALL TIMEOUT"
    res = {}
    for line in out.splitlines():
        m = re.match(r"^(.*?\.py):(\d+): (error|info|warning): (.*)$", line)
        if not m or os.path.abspath(m.group(1)) != os.path.abspath(path):
            continue
        ln = int(m.group(2))
        fn = None
        for a, b, name in spans:
            if a <= ln <= b:
                fn = name if fn is None or a > [s for s in spans if s[2] == fn][0][0] else fn
        if fn is None:
            continue
        msg = m.group(4)
        if m.group(3) == "error":
            st = "refuted" if msg.startswith("false when calling") else "raised"
        elif "Confirmed over all paths" in msg:
            st = "confirmed"
        else:
            st = "unknown"
        # an error line wins over info lines for the same function
        if fn not in res or st in ("refuted", "raised"):
            res[fn] = (st, msg)
    return res, out, time.time() - t0


def run_crosshair_parallel(path, per_condition_timeout=60, wall_timeout=900, jobs=12):
    """One crosshair process per contract function (per-condition timeouts are sequential CPU inside one process)."""
    from concurrent.futures import ThreadPoolExecutor
    tree = ast.parse(open(path).read())
    fns = [n for n in tree.body if isinstance(n, ast.FunctionDef) and "post:" in (ast.get_docstring(n) or "")]
    t0 = time.time()
    res, outs = {}, []

    def one(n):
        return run_crosshair(path, per_condition_timeout=per_condition_timeout, wall_timeout=wall_timeout, only=[n.body[0].lineno])
    with ThreadPoolExecutor(max_workers=jobs) as ex:
        for r, out, _ in ex.map(one, fns):
            res.update(r)
            outs.append(out)
    return res, "\n".join(outs), time.time() - t0


def parse_call_args(msg):
    """'false when calling f(a=1, b=[0.0, 2.0])' -> dict via ast.literal_eval on each keyword"""
    m = re.search(r"calling (\w+)\((.*?)\)(?: \(which|$)", msg)
    if not m:
        return None
    try:
        call = ast.parse("f(" + m.group(2) + ")", mode="eval").body
        out = {}
        names = _ARGNAMES.get(m.group(1), [])
        for i, a in enumerate(call.args):
            out[names[i] if i < len(names) else f"arg{i}"] = ast.literal_eval(a)
        for kw in call.keywords:
            out[kw.arg] = ast.literal_eval(kw.value)
        return out
    except Exception:  # noqa: BLE001
        return None


def run_c15(cx):
    path = os.path.join(HERE, "c15_idx.py")
    sys.path.insert(0, ROOT)
    from xhair import c15_idx
    # shim validation + concrete spec on a grid (translator validation of the shim against real jnp)
    bad = []
    n = 0
    for p in (1, 2, 3):
        for f in (1, 2):
            for dt in (1, 2, 3):
                for T in (4, 7, 9):
                    if T - (p + f - 1) * dt >= 1:
                        ok, shim_ok = c15_idx.concrete_check(p, f, dt, T)
                        n += 1
                        if not shim_ok:
                            bad.append((p, f, dt, T))
    cx.validated_against_impl(n)
    def enumerate_fallback(why):
        t0 = time.time()
        cnt, fail = c15_idx.enumerate_spec()
        cx.note(f"C15 index half: {why}; decided by exhaustive enumeration of {cnt} (p,f,dt,T) tuples with the real function "
                f"instead of CrossHair")
        if fail is None:
            cx.external("time_series_idxs specification", "unsat",
                        f"{cnt} tuples p,f<=6 dt<=4 T<=48 enumerated with the real function ({why})", key="idxs:spec", solver_s=time.time() - t0)
        else:
            cx.external("time_series_idxs specification", "sat",
                        f"real time_series_idxs{fail} differs from the specification", reproduced=True, key="idxs:spec",
                        witness={"p": fail[0], "f": fail[1], "dt": fail[2], "T": fail[3]}, solver_s=time.time() - t0)

    if bad:
        # The lazy shim does not model what the current source does with the indices (e.g. after a refactoring): CrossHair
        # cannot be used soundly.  Decide the same bounded domain by complete enumeration of the real function instead
        # (weaker technique - concrete runs, not a solver - recorded as such; same bounds, so still a decision within them).
        enumerate_fallback(f"lazy shim not applicable to the current source (first disagreement {bad[0]})")
        return
    res, out, dt = run_crosshair(path, per_condition_timeout=120 if getattr(cx, "tier", "quick") == "quick" else 600)
    st, msg = res.get("check_idxs", ("unknown", "no report line"))
    if st not in ("refuted", "confirmed"):
        # CrossHair could not finish on the current source (e.g. eager string formatting of symbolic ints): same bounded domain, enumerated
        enumerate_fallback(f"CrossHair inconclusive on the current source ({msg[:80]})")
        return
    if st == "refuted":
        args = parse_call_args(msg) or {}
        rep = False
        try:
            ok, _ = c15_idx.concrete_check(args["p"], args["f"], args["dt"], args["T"])
            rep = not ok
        except Exception as e:  # noqa: BLE001
            rep = True
            msg += f" (real function raised {e!r})"
        cx.external("time_series_idxs specification", "sat", msg, reproduced=rep, key="idxs:spec", witness=args, solver_s=dt)
    else:
        cx.external("time_series_idxs specification", "unsat" if st == "confirmed" else "unknown", msg, key="idxs:spec", solver_s=dt)
    st, msg = res.get("canary_idxs", ("unknown", "no report line"))
    cx.external("canary[target index off by dt]", "sat" if st == "refuted" else ("unsat" if st == "confirmed" else "unknown"), msg,
                reproduced=True, canary=True)


def _c19_concrete(kind, losses, patience, min_delta, rep):
    """Un-instrumented replay: the real classes (fresh import, builtin float) fed genuine scalars of representation `rep`."""
    import importlib.util
    import numpy as np
    spec = importlib.util.spec_from_file_location("sc_real", os.path.join(os.environ.get("VERIF_REPO", "/repo"),
                                                                           "src/ginjax/ml/stopping_conditions.py"))
    m = importlib.util.module_from_spec(spec)
    spec.loader.exec_module(m)
    from xhair import c19_stop
    if rep == "float":
        conv = float
    elif rep == "np.float32":
        conv = np.float32
    elif rep == "jax.bfloat16":
        import jax.numpy as jnp
        conv = lambda v: jnp.asarray(v, dtype=jnp.bfloat16)
    else:
        import jax.numpy as jnp
        conv = lambda v: jnp.asarray(v, dtype=jnp.float32)
    cls = m.TrainLoss if kind == "train" else m.ValLoss
    sc = cls(patience=patience, min_delta=min_delta)
    first = -1
    pre = bool(sc.stop(("model", -1), 0, None, None, 0.0))  # the call `train` makes before the first epoch: must not stop
    for i, l in enumerate(losses):
        lv = conv(l)
        r = sc.stop(("model", i), i + 1, lv if kind == "train" else conv(123.0), lv if kind == "val" else conv(123.0), 0.0)
        if r:
            first = i
            break
    # the reference on the float32-rounded values the classes actually saw
    if rep == "jax.bfloat16":
        import jax.numpy as jnp
        seen = [float(jnp.asarray(l, dtype=jnp.bfloat16)) for l in losses]
    else:
        seen = [float(np.float32(l)) if rep != "float" else float(l) for l in losses]
    efirst, _ = c19_stop.ref_run(seen, patience, min_delta)
    ebest = c19_stop.ref_run(seen if first < 0 else seen[: first + 1], patience, min_delta)[1]
    bidx = sc.best_model[1] if isinstance(sc.best_model, tuple) else -2
    ok = (not pre) and (first == efirst) and (bidx == ebest)
    return ok, (f"{cls.__name__} fed {rep} losses {losses} patience={patience} min_delta={min_delta}: stop before any loss is known returned {pre} "
                f"(spec False), first stop {first} (spec {efirst}), best model {bidx} (spec {ebest})")


def run_c19(cx, tier="quick"):
    path = os.path.join(HERE, "c19_stop.py")
    sys.path.insert(0, ROOT)
    # the per-condition timeout only matters on a loaded machine: CrossHair returns as soon as every path is explored
    t = 600 if tier == "quick" else 1500
    os.environ["C19_MAXLEN"] = os.environ.get("C19_MAXLEN_OVERRIDE") or ("3" if tier == "quick" else "5")
    res, out, dt = run_crosshair_parallel(path, per_condition_timeout=t, wall_timeout=3000)
    # which scalar representations are not `float` (measured on the real objects, recorded as a note)
    import numpy as np
    import jax.numpy as jnp
    reps = {"float": isinstance(1.0, float), "np.float32": isinstance(np.float32(1), float), "np.float64": isinstance(np.float64(1), float),
            "jax 0-d array": isinstance(jnp.asarray(1.0), float)}
    cx.note("isinstance(., float) on this platform: " + repr(reps))
    plan = [
        ("check_trainloss_float", "train", ["float"]),
        ("check_trainloss_nonfloat", "train", ["np.float32", "jax"]),
        ("check_valloss_float", "val", ["float"]),
        ("check_valloss_nonfloat", "val", ["np.float32", "jax"]),
    ]
    for fn, kind, repl in plan:
        st, msg = res.get(fn, ("unknown", "no report line"))
        name = f"{fn}: bounded histories vs reference state machine"
        if st in ("refuted", "raised"):
            args = parse_call_args(msg) or {}
            rep_ok, det = False, msg
            for rp in repl:
                try:
                    ok, d = _c19_concrete(kind, list(args.get("losses", [])), int(args.get("patience", 0)), float(args.get("min_delta", 0.0)), rp)
                except Exception as e:  # noqa: BLE001
                    ok, d = False, f"replay raised {e!r}"
                if not ok:
                    rep_ok, det = True, d
                    break
            cx.external(name, "sat", det, reproduced=rep_ok, key=f"stop:{fn}", witness=args, solver_s=dt)
        else:
            cx.external(name, "unsat" if st == "confirmed" else "unknown", msg, key=f"stop:{fn}", solver_s=dt)
    for fn in ("check_step_train", "check_step_val", "check_epochstop"):
        st, msg = res.get(fn, ("unknown", "no report line"))
        if st in ("refuted", "raised"):
            cx.external(f"{fn}", "sat", msg, reproduced=_c19_step_replay(fn, parse_call_args(msg) or {}), key=f"stop:{fn}",
                        witness=parse_call_args(msg) or {}, solver_s=dt)
        else:
            cx.external(f"{fn}", "unsat" if st == "confirmed" else "unknown", msg, key=f"stop:{fn}", solver_s=dt)
    # the real ml.train loop (source cut out of training.py, environment stubbed) for every bounded loss history
    for fn, kind in (("check_train_loop_trainloss", "train"), ("check_train_loop_valloss", "val")):
        st, msg = res.get(fn, ("unknown", "no report line"))
        name = f"{fn}: the real ml.train loop stops at the specified epoch and returns the best epoch's model"
        if st in ("refuted", "raised"):
            args = parse_call_args(msg) or {}
            rep_ok, det = False, msg
            for rp, conv in (("np.float32", np.float32), ("jax", lambda v: jnp.asarray(v, dtype=jnp.float32))):
                try:
                    from xhair import c19_stop
                    ls = [float(np.float32(l)) for l in args.get("losses", [])]
                    for nb in (1, 2):
                        ok = c19_stop._train_spec(kind, ls, int(args.get("patience", 0)), float(args.get("min_delta", 0.0)), nb=nb, conv=conv, wrap=False)
                        if not ok:
                            break
                    d = f"real ml.train loop (stubbed environment, {nb} batch(es) per epoch) fed {rp} losses {ls} patience={args.get('patience')} min_delta={args.get('min_delta')}: " \
                        f"ran/returned {c19_stop._run_train(kind, ls, int(args.get('patience', 0)), float(args.get('min_delta', 0.0)), nb=nb, conv=conv, wrap=False)[:2]}"
                except Exception as e:  # noqa: BLE001
                    ok, d = False, f"the real ml.train loop raised {e!r}"
                if not ok:
                    rep_ok, det = True, d
                    break
            cx.external(name, "sat", det, reproduced=rep_ok, key=f"stop:{fn}", witness=args, solver_s=dt)
        else:
            cx.external(name, "unsat" if st == "confirmed" else "unknown", msg, key=f"stop:{fn}", solver_s=dt)
    for fn in ("canary_patience", "canary_reach", "canary_train_loop"):
        st, msg = res.get(fn, ("unknown", "no report line"))
        cx.external(f"canary[{fn}]", "sat" if st == "refuted" else ("unsat" if st == "confirmed" else "unknown"), msg, reproduced=True, canary=True)
    # genuine-scalar differential runs over a small ordered alphabet (translator validation of the NF / float-stub modelling)
    import itertools
    n = 0
    bad = []
    for L in (1, 2, 3):
        for losses in itertools.product([1.0, 2.0, 3.0], repeat=L):
            for pat in (0, 1):
                for rp in ("float", "np.float32", "jax"):
                    for kind in ("train", "val"):
                        ok, d = _c19_concrete(kind, list(losses), pat, 0.0, rp)
                        n += 1
                        if not ok:
                            bad.append(d)
    # rounding-sensitive histories: an improvement of exactly one unit in the last place of the scalar type, with min_delta a
    # fraction (0.6) of that unit - the comparison `loss < best - min_delta` must be made on the values, not in the loss's own
    # low-precision arithmetic (where best - min_delta rounds a whole unit down and the improvement is missed)
    for rp, base, ulp in (("np.float32", 2.0 ** 20, 2.0 ** -4), ("jax", 2.0 ** 20, 2.0 ** -4), ("jax.bfloat16", 0.5, 2.0 ** -9), ("float", 2.0 ** 20, 2.0 ** -4)):
        for kind in ("train", "val"):
            for pat in (0, 1):
                for losses in ([base, base - ulp, base - ulp], [base, base - ulp, base - 2 * ulp, base - 2 * ulp], [base, base, base - ulp]):
                    ok, d = _c19_concrete(kind, list(losses), pat, 0.6 * ulp, rp)
                    n += 1
                    if not ok:
                        bad.append(d)
    # non-finite losses (a run that diverges) after a finite first epoch: NaN compares False with everything, so it is never an
    # improvement; +inf never improves.  (A non-finite FIRST loss is left out: whether it "improves on the best so far" is not specified.)
    nan, inf = float("nan"), float("inf")
    for losses in ([3.0, 2.0, 1.0, nan, nan, nan, nan], [1.0, nan, 2.0, 2.0, 2.0], [2.0, nan, 1.0, nan, nan, nan], [1.0, inf, 0.5, inf, inf, inf], [2.0, 1.0, inf, nan, 0.5, nan, nan, nan]):
        for rp in ("float", "np.float32", "jax"):
            for kind in ("train", "val"):
                for pat in (0, 2):
                    ok, d = _c19_concrete(kind, list(losses), pat, 0.0, rp)
                    n += 1
                    if not ok:
                        bad.append(d)
    from xhair import c19_stop as _cs
    for L in (1, 2, 3, 4):
        for losses in itertools.product([1.0, 2.0, 3.0], repeat=L):
            for pat in (0, 1):
                for kind in ("train", "val"):
                    for nb, conv, nm in ((1, np.float32, "np.float32"), (2, lambda v: jnp.asarray(v, dtype=jnp.float32), "jax")):
                        if L == 4 and nb == 2:
                            continue
                        n += 1
                        try:
                            ok = _cs._train_spec(kind, list(losses), pat, 0.0, nb=nb, conv=conv, wrap=False)
                        except Exception as e:  # noqa: BLE001
                            ok = False
                        if not ok:
                            bad.append(f"real ml.train loop (stubbed environment, {nb} batch(es)/epoch, {nm} losses {losses}, {kind}, patience {pat}) does not stop at the "
                                       f"specified epoch with the best epoch's model")
    cx.validated_against_impl(n)
    if bad:
        cx.external("genuine scalars (float, np.float32, jax) on the real classes", "sat", bad[0] + f" (+{len(bad) - 1} more)", reproduced=True,
                    key="stop:genuine-scalars", witness={})
    else:
        cx.external("genuine scalars (float, np.float32, jax) on the real classes", "unsat", f"{n} concrete differential runs agree", key="stop:genuine-scalars")


def _c19_step_replay(fn, args):
    try:
        import importlib.util
        spec = importlib.util.spec_from_file_location("sc_real2", os.path.join(os.environ.get("VERIF_REPO", "/repo"),
                                                                                "src/ginjax/ml/stopping_conditions.py"))
        m = importlib.util.module_from_spec(spec)
        spec.loader.exec_module(m)
        import numpy as np
        if fn == "check_epochstop":
            sc = m.EpochStop(args["epochs"])
            first = -1
            for e in range(args["n"] + 1):
                if sc.stop(("model", e), e, 1.0 if e else None, None, 0.0):
                    first = e
                    break
            want = args["epochs"] if args["epochs"] <= args["n"] else -1
            return not (first == want and (first < 0 or sc.best_model == ("model", first)))
        cls = m.TrainLoss if fn.endswith("train") else m.ValLoss
        sc = cls(patience=args["patience"], min_delta=args["min_delta"])
        if fn.endswith("train"):
            sc.best_train_loss = args["best"]
        else:
            sc.best_val_loss = args["best"]
        sc.epochs_since_best = args["since"]
        sc.best_model = "old"
        lv = np.float32(args["loss"]) if args.get("wrap") else float(args["loss"])
        r = sc.stop("new", 7, lv if fn.endswith("train") else None, lv if fn.endswith("val") else None, 0.0)
        lf = float(lv)
        if lf < args["best"] - args["min_delta"]:
            return not ((not r) and sc.epochs_since_best == 0 and sc.best_model == "new")
        return not (r == (args["since"] + 1 > args["patience"]) and sc.epochs_since_best == args["since"] + 1 and sc.best_model == "old")
    except Exception:  # noqa: BLE001
        return True


def train_protocol_check(cx):
    """Concrete run of the real ml.train on a tiny model (validation of the call protocol the CrossHair model assumes):
    first call before any epoch with no losses, then one call per epoch with increasing epoch numbers and scalar losses;
    training terminates on a non-improving history exactly where the reference machine says; the returned model is the
    condition's best_model."""
    import jax
    import jax.numpy as jnp
    import optax
    import ginjax.geometric as geom
    import ginjax.ml as ml
    import ginjax.models as models
    from xhair import c19_stop
    D, N = 2, 4
    ops = geom.make_all_operators(D)
    bank = geom.get_invariant_filters([3], [0, 1], [0], D, ops)
    sig = geom.Signature((((0, 0), 1),))
    layer = ml.ConvContract(sig, sig, bank, False, key=jax.random.PRNGKey(0))

    class Wrap(models.MultiImageModule):
        layer: ml.ConvContract

        def __call__(self, x, aux=None):
            return self.layer(x), aux

    def map_and_loss(model, x, y, aux):
        out = jax.vmap(lambda xx: model(xx)[0])(x)
        return ml.smse_loss(out, y), aux
    X = geom.MultiImage({(0, 0): jnp.ones((4, 1, N, N))}, D, True)
    Y = geom.MultiImage({(0, 0): 2 * jnp.ones((4, 1, N, N))}, D, True)
    results = []
    for kind, patience, lr in (("train", 0, 0.0), ("train", 2, 0.0), ("val", 1, 0.0), ("epoch", 3, 1e-3)):
        calls = []
        base = {"train": ml.TrainLoss, "val": ml.ValLoss, "epoch": ml.EpochStop}[kind]

        class Rec(base):
            def stop(self, model, epoch, tl, vl, t):
                calls.append((epoch, None if tl is None else float(tl), None if vl is None else float(vl), model))
                if len(calls) > 12:
                    raise RuntimeError("training did not stop within 12 epochs")
                return super().stop(model, epoch, tl, vl, t)
        sc = Rec(patience) if kind == "epoch" else Rec(patience=patience)
        try:
            out_model, _, tl, vl = ml.train(X, Y, map_and_loss, Wrap(layer), jax.random.PRNGKey(1), sc, 2, optax.sgd(lr),
                                            validation_X=X if kind == "val" else None, validation_Y=Y if kind == "val" else None)
        except RuntimeError as e:
            results.append((False, f"{kind} patience={patience} lr={lr}: {e}"))
            continue
        ok = calls[0][0] == 0 and calls[0][1] is None and [c[0] for c in calls] == list(range(len(calls)))
        if kind == "epoch":
            ok = ok and len(calls) == patience + 1 and out_model is calls[-1][3]
            det = f"EpochStop({patience}): {len(calls) - 1} epochs run"
        else:
            losses = [c[1] if kind == "train" else c[2] for c in calls[1:]]
            efirst, ebest = c19_stop.ref_run(losses, patience, 0.0)
            ok = ok and efirst == len(losses) - 1 and out_model is calls[1 + ebest][3]
            det = f"{kind} patience={patience} lr={lr}: losses {losses} stopped after {len(losses)} epochs (spec {efirst + 1}), best epoch {ebest}"
        results.append((bool(ok), det))
    bad = [d for ok, d in results if not ok]
    cx.validated_against_impl(len(results))
    cx.structural("ml.train call protocol and termination on a tiny model (concrete runs)", not bad, "; ".join(bad) or "; ".join(d for _, d in results),
                  key="stop:train-protocol")
