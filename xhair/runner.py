"""Runs CrossHair on the harness files and turns its report into obligation records."""
from __future__ import annotations

import ast
import os
import re
import subprocess
import sys
import time

HERE = os.path.dirname(os.path.abspath(__file__))
ROOT = os.path.dirname(HERE)


def run_crosshair(path, per_condition_timeout=60, per_path_timeout=None, wall_timeout=600, only=None):
    """-> {function name: (status, message)} with status in confirmed / refuted / unknown"""
    src = open(path).read()
    tree = ast.parse(src)
    spans = [(n.lineno, n.end_lineno, n.name) for n in ast.walk(tree) if isinstance(n, ast.FunctionDef)]
    targets = [path] if only is None else [f"{path}:{ln}" for ln in only]
    cmd = [sys.executable, "-m", "crosshair", "check", "--report_all", f"--per_condition_timeout={per_condition_timeout}"]
    if per_path_timeout:
        cmd.append(f"--per_path_timeout={per_path_timeout}")
    cmd += targets
    env = dict(os.environ)
    env["PYTHONPATH"] = ROOT + os.pathsep + env.get("PYTHONPATH", "")
    t0 = time.time()
    try:
        p = subprocess.run(cmd, capture_output=True, text=True, timeout=wall_timeout, env=env, cwd=ROOT)
        out = p.stdout + "\n" + p.stderr
    except subprocess.TimeoutExpired as e:
        out = (e.stdout or "") + "\n" + (e.stderr or "") if isinstance(e.stdout, str) else ""
        out += "\nWALL TIMEOUT"
    res = {}
    for line in out.splitlines():
        m = re.match(r"^(.*?\.py):(\d+): (error|info|warning): (.*)$", line)
        if not m or os.path.abspath(m.group(1)) != os.path.abspath(path):
            continue
        ln = int(m.group(2))
        fn = None
        for a, b, name in spans:
            if a <= ln <= b:
                fn = name if fn is None or a > [s for s in spans if s[2] == fn][0][0] else fn
        if fn is None:
            continue
        msg = m.group(4)
        if m.group(3) == "error":
            st = "refuted"
        elif "Confirmed over all paths" in msg:
            st = "confirmed"
        else:
            st = "unknown"
        # an error line wins over info lines for the same function
        if fn not in res or st == "refuted" or (res[fn][0] == "unknown" and st == "confirmed" and False):
            res[fn] = (st, msg)
    return res, out, time.time() - t0


def parse_call_args(msg):
    """'false when calling f(a=1, b=[0.0, 2.0])' -> dict via ast.literal_eval on each keyword"""
    m = re.search(r"calling \w+\((.*)\)", msg)
    if not m:
        return None
    try:
        call = ast.parse("f(" + m.group(1) + ")", mode="eval").body
        out = {}
        for kw in call.keywords:
            out[kw.arg] = ast.literal_eval(kw.value)
        return out
    except Exception:  # noqa: BLE001
        return None


def run_c15(cx):
    path = os.path.join(HERE, "c15_idx.py")
    sys.path.insert(0, ROOT)
    from xhair import c15_idx
    # shim validation + concrete spec on a grid (translator validation of the shim against real jnp)
    bad = []
    n = 0
    for p in (1, 2, 3):
        for f in (1, 2):
            for dt in (1, 2, 3):
                for T in (4, 7, 9):
                    if T - (p + f - 1) * dt >= 1:
                        ok, shim_ok = c15_idx.concrete_check(p, f, dt, T)
                        n += 1
                        if not shim_ok:
                            bad.append((p, f, dt, T))
    cx.validated_against_impl(n)
    if bad:
        raise RuntimeError(f"lazy jnp shim disagrees with real jnp on {bad[:3]}")
    res, out, dt = run_crosshair(path, per_condition_timeout=90)
    st, msg = res.get("check_idxs", ("unknown", "no report line"))
    if st == "refuted":
        args = parse_call_args(msg) or {}
        rep = False
        try:
            ok, _ = c15_idx.concrete_check(args["p"], args["f"], args["dt"], args["T"])
            rep = not ok
        except Exception as e:  # noqa: BLE001
            rep = True
            msg += f" (real function raised {e!r})"
        cx.external("time_series_idxs specification", "sat", msg, reproduced=rep, key="idxs:spec", witness=args, solver_s=dt)
    else:
        cx.external("time_series_idxs specification", "unsat" if st == "confirmed" else "unknown", msg, key="idxs:spec", solver_s=dt)
    st, msg = res.get("canary_idxs", ("unknown", "no report line"))
    cx.external("canary[target index off by dt]", "sat" if st == "refuted" else ("unsat" if st == "confirmed" else "unknown"), msg,
                reproduced=True, canary=True)
