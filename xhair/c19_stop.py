"""CrossHair harness for the real stopping conditions (C19).

stopping_conditions.py is loaded by file path from /repo (importing ginjax.ml would pull in wandb, whose atexit temp-dir
cleanup trips CrossHair's audit wall).  Losses are symbolic floats.  The training loop hands the conditions 0-d jax arrays
and users hand numpy scalars: neither is a `float`, so besides plain floats the losses are also wrapped in NF, a scalar
class that (like np.float32 / jax scalars) compares and subtracts but is not an instance of float; the builtin float() is
stubbed in the module's globals by "return the wrapped value" (contract float(np.float32(v)) == v), because CrossHair
aborts every path on a user __float__ that returns a symbolic.
"""
import builtins
import importlib.util
import os
from typing import List

_REPO = os.environ.get("VERIF_REPO", "/repo")
MAXLEN = int(os.environ.get("C19_MAXLEN", "3"))  # bound on the symbolic history length (3 quick, 5 thorough)
_spec = importlib.util.spec_from_file_location("sc_mod", os.path.join(_REPO, "src/ginjax/ml/stopping_conditions.py"))
sc_mod = importlib.util.module_from_spec(_spec)
_spec.loader.exec_module(sc_mod)


class NF:
    """stands for np.float32 / a 0-d jax array: comparable, subtractable, float()-able, but not a float"""

    def __init__(self, v):
        self.v = v

    def _o(self, o):
        return o.v if isinstance(o, NF) else o

    def __lt__(self, o):
        return self.v < self._o(o)

    def __le__(self, o):
        return self.v <= self._o(o)

    def __gt__(self, o):
        return self.v > self._o(o)

    def __ge__(self, o):
        return self.v >= self._o(o)

    def __sub__(self, o):
        return NF(self.v - self._o(o))

    def __rsub__(self, o):
        return NF(o - self.v)

    def __add__(self, o):
        return NF(self.v + self._o(o))

    __radd__ = __add__

    def __float__(self):
        return self.v

    def item(self):
        return self.v


class _FloatMeta(type):
    def __instancecheck__(cls, x):
        return isinstance(x, builtins.float)


class _float_stub(metaclass=_FloatMeta):
    """module-global shadow of the builtin float: float(x) returns the wrapped value of an NF, isinstance(x, float) is the
    builtin's answer (an NF is not a float, exactly like np.float32 / jax scalars)"""

    def __new__(cls, x=0.0):
        return x.v if isinstance(x, NF) else builtins.float(x)


# two instances of the real module: sc_mod untouched (plain float losses), sc_nf with float() shadowed (NF losses)
_spec2 = importlib.util.spec_from_file_location("sc_nf", os.path.join(_REPO, "src/ginjax/ml/stopping_conditions.py"))
sc_nf = importlib.util.module_from_spec(_spec2)
_spec2.loader.exec_module(sc_nf)
sc_nf.float = _float_stub  # see the module docstring


def _mod(wrap):
    return sc_nf if wrap else sc_mod


def ref_run(losses, patience, min_delta):
    """Reference state machine written from the statement: (first stopping epoch or -1, index of the best epoch or -1)."""
    best = None
    best_idx = -1
    since = 0
    for i, l in enumerate(losses):
        if best is None or l < best - min_delta:
            best, best_idx, since = l, i, 0
        else:
            since += 1
        if since > patience:
            return i, best_idx
    return -1, best_idx


def _drive(sc, losses, wrap, which):
    first = -1
    # the loop's very first call happens before any epoch, with no losses
    pre = sc.stop(("model", -1), 0, None, None, 0.0)
    for i, l in enumerate(losses):
        lv = NF(l) if wrap else l
        other = NF(123.0) if wrap else 123.0
        r = sc.stop(("model", i), i + 1, lv if which == "train" else other, lv if which == "val" else other, 0.0)
        if r:
            first = i
            break
    bm = sc.best_model
    return pre, first, (bm[1] if isinstance(bm, tuple) else -2)


def check_trainloss_float(losses: List[float], patience: int, min_delta: float) -> bool:
    """
    pre: 0 <= patience <= 3 and 0 <= min_delta <= 8
    pre: 1 <= len(losses) <= MAXLEN
    pre: all(0 <= l <= 100 for l in losses)
    post: _
    """
    pre, first, bidx = _drive(sc_mod.TrainLoss(patience=patience, min_delta=min_delta), losses, False, "train")
    efirst, ebest = ref_run(losses if first < 0 else losses[: first + 1], patience, min_delta)
    return (not pre) and first == ref_run(losses, patience, min_delta)[0] and bidx == ebest


def check_trainloss_nonfloat(losses: List[float], patience: int, min_delta: float) -> bool:
    """
    pre: 0 <= patience <= 3 and 0 <= min_delta <= 8
    pre: 1 <= len(losses) <= MAXLEN
    pre: all(0 <= l <= 100 for l in losses)
    post: _
    """
    pre, first, bidx = _drive(sc_nf.TrainLoss(patience=patience, min_delta=min_delta), losses, True, "train")
    efirst, ebest = ref_run(losses if first < 0 else losses[: first + 1], patience, min_delta)
    return (not pre) and first == ref_run(losses, patience, min_delta)[0] and bidx == ebest


def check_valloss_float(losses: List[float], patience: int, min_delta: float) -> bool:
    """
    pre: 0 <= patience <= 3 and 0 <= min_delta <= 8
    pre: 1 <= len(losses) <= MAXLEN
    pre: all(0 <= l <= 100 for l in losses)
    post: _
    """
    pre, first, bidx = _drive(sc_mod.ValLoss(patience=patience, min_delta=min_delta), losses, False, "val")
    efirst, ebest = ref_run(losses if first < 0 else losses[: first + 1], patience, min_delta)
    return (not pre) and first == ref_run(losses, patience, min_delta)[0] and bidx == ebest


def check_valloss_nonfloat(losses: List[float], patience: int, min_delta: float) -> bool:
    """
    pre: 0 <= patience <= 3 and 0 <= min_delta <= 8
    pre: 1 <= len(losses) <= MAXLEN
    pre: all(0 <= l <= 100 for l in losses)
    post: _
    """
    pre, first, bidx = _drive(sc_nf.ValLoss(patience=patience, min_delta=min_delta), losses, True, "val")
    efirst, ebest = ref_run(losses if first < 0 else losses[: first + 1], patience, min_delta)
    return (not pre) and first == ref_run(losses, patience, min_delta)[0] and bidx == ebest


def check_step_train(best: float, since: int, loss: float, patience: int, min_delta: float, wrap: bool) -> bool:
    """
    One inductive step from an arbitrary reachable state (best so far, epochs since best).
    pre: 0 <= patience <= 5 and 0 <= min_delta <= 8 and 0 <= since <= patience
    pre: 0 <= best <= 100 and 0 <= loss <= 100
    post: _
    """
    sc = _mod(wrap).TrainLoss(patience=patience, min_delta=min_delta)
    sc.best_train_loss = best
    sc.epochs_since_best = since
    sc.best_model = ("model", "old")
    r = sc.stop(("model", "new"), 7, NF(loss) if wrap else loss, None, 0.0)
    if loss < best - min_delta:
        return (not r or patience < 0) and sc.epochs_since_best == 0 and sc.best_model == ("model", "new") and _float_stub(sc.best_train_loss) == loss
    return r == (since + 1 > patience) and sc.epochs_since_best == since + 1 and sc.best_model == ("model", "old") and sc.best_train_loss == best


def check_step_val(best: float, since: int, loss: float, patience: int, min_delta: float, wrap: bool) -> bool:
    """
    pre: 0 <= patience <= 5 and 0 <= min_delta <= 8 and 0 <= since <= patience
    pre: 0 <= best <= 100 and 0 <= loss <= 100
    post: _
    """
    sc = _mod(wrap).ValLoss(patience=patience, min_delta=min_delta)
    sc.best_val_loss = best
    sc.epochs_since_best = since
    sc.best_model = ("model", "old")
    r = sc.stop(("model", "new"), 7, None, NF(loss) if wrap else loss, 0.0)
    if loss < best - min_delta:
        return (not r) and sc.epochs_since_best == 0 and sc.best_model == ("model", "new") and _float_stub(sc.best_val_loss) == loss
    return r == (since + 1 > patience) and sc.epochs_since_best == since + 1 and sc.best_model == ("model", "old") and sc.best_val_loss == best


def check_epochstop(epochs: int, n: int) -> bool:
    """
    Stops after exactly `epochs` epochs and hands back the last model.
    pre: 1 <= epochs <= 12 and 0 <= n <= 14
    post: _
    """
    sc = sc_mod.EpochStop(epochs)
    first = -1
    for e in range(n + 1):  # e = number of completed epochs at the time of the call, as in ml.train
        if sc.stop(("model", e), e, 1.0 if e else None, None, 0.0):
            first = e
            break
    want = epochs if epochs <= n else -1
    return first == want and (first < 0 or sc.best_model == ("model", first))


def canary_patience(losses: List[float], patience: int) -> bool:
    """
    Deliberately wrong specification (patience off by one): must be refuted.
    pre: 0 <= patience <= 2 and 1 <= len(losses) <= 4
    pre: all(0 <= l <= 100 for l in losses)
    post: _
    """
    pre, first, bidx = _drive(sc_mod.TrainLoss(patience=patience, min_delta=0), losses, False, "train")
    return first == ref_run(losses, patience + 1, 0)[0]


def canary_reach(losses: List[float]) -> bool:
    """
    Reachability twin: claims the condition never stops; must be refuted.
    pre: 1 <= len(losses) <= 3
    pre: all(0 <= l <= 100 for l in losses)
    post: _
    """
    pre, first, bidx = _drive(sc_mod.TrainLoss(patience=0, min_delta=0), losses, False, "train")
    return first == -1 or _never()


def _never():
    return False
