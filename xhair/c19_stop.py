"""CrossHair harness for the real stopping conditions (C19).

stopping_conditions.py is loaded by file path from /repo (importing ginjax.ml would pull in wandb, whose atexit temp-dir
cleanup trips CrossHair's audit wall).  Losses are symbolic floats.  The training loop hands the conditions 0-d jax arrays
and users hand numpy scalars: neither is a `float`, so besides plain floats the losses are also wrapped in NF, a scalar
class that (like np.float32 / jax scalars) compares and subtracts but is not an instance of float; the builtin float() is
stubbed in the module's globals by "return the wrapped value" (contract float(np.float32(v)) == v), because CrossHair
aborts every path on a user __float__ that returns a symbolic.
"""
import builtins
import importlib.util
import os
from typing import List

_REPO = os.environ.get("VERIF_REPO", "/repo")
MAXLEN = int(os.environ.get("C19_MAXLEN", "3"))  # bound on the symbolic history length (3 quick, 5 thorough)
_spec = importlib.util.spec_from_file_location("sc_mod", os.path.join(_REPO, "src/ginjax/ml/stopping_conditions.py"))
sc_mod = importlib.util.module_from_spec(_spec)
_spec.loader.exec_module(sc_mod)


class NF:
    """stands for np.float32 / a 0-d jax array: comparable, subtractable, float()-able, but not a float"""

    def __init__(self, v):
        self.v = v

    def _o(self, o):
        return o.v if isinstance(o, NF) else o

    def __lt__(self, o):
        return self.v < self._o(o)

    def __le__(self, o):
        return self.v <= self._o(o)

    def __gt__(self, o):
        return self.v > self._o(o)

    def __ge__(self, o):
        return self.v >= self._o(o)

    def __sub__(self, o):
        return NF(self.v - self._o(o))

    def __rsub__(self, o):
        return NF(o - self.v)

    def __add__(self, o):
        if type(o) is int and o == 0:      # x + 0 == x
            return NF(self.v)
        return NF(self.v + self._o(o))

    __radd__ = __add__

    def __truediv__(self, o):
        if type(o) is int and o == 1:      # x / 1 == x exactly (floats and reals): keeps the solver's terms small
            return NF(self.v)
        return NF(self.v / self._o(o))

    def __float__(self):
        return self.v

    def item(self):
        return self.v


class _FloatMeta(type):
    def __instancecheck__(cls, x):
        return isinstance(x, builtins.float)


class _float_stub(metaclass=_FloatMeta):
    """module-global shadow of the builtin float: float(x) returns the wrapped value of an NF, isinstance(x, float) is the
    builtin's answer (an NF is not a float, exactly like np.float32 / jax scalars)"""

    def __new__(cls, x=0.0):
        return x.v if isinstance(x, NF) else builtins.float(x)


# two instances of the real module: sc_mod untouched (plain float losses), sc_nf with float() shadowed (NF losses)
_spec2 = importlib.util.spec_from_file_location("sc_nf", os.path.join(_REPO, "src/ginjax/ml/stopping_conditions.py"))
sc_nf = importlib.util.module_from_spec(_spec2)
_spec2.loader.exec_module(sc_nf)
sc_nf.float = _float_stub  # see the module docstring


def _mod(wrap):
    return sc_nf if wrap else sc_mod


def ref_run(losses, patience, min_delta):
    """Reference state machine written from the statement: (first stopping epoch or -1, index of the best epoch or -1)."""
    best = None
    best_idx = -1
    since = 0
    for i, l in enumerate(losses):
        if best is None or l < best - min_delta:
            best, best_idx, since = l, i, 0
        else:
            since += 1
        if since > patience:
            return i, best_idx
    return -1, best_idx


def _drive(sc, losses, wrap, which):
    first = -1
    # the loop's very first call happens before any epoch, with no losses
    pre = sc.stop(("model", -1), 0, None, None, 0.0)
    for i, l in enumerate(losses):
        lv = NF(l) if wrap else l
        other = NF(123.0) if wrap else 123.0
        r = sc.stop(("model", i), i + 1, lv if which == "train" else other, lv if which == "val" else other, 0.0)
        if r:
            first = i
            break
    bm = sc.best_model
    return pre, first, (bm[1] if isinstance(bm, tuple) else -2)


def check_trainloss_float(losses: List[float], patience: int, min_delta: float) -> bool:
    """
    pre: 0 <= patience <= 3 and 0 <= min_delta <= 8
    pre: 1 <= len(losses) <= MAXLEN
    pre: all(0 <= l <= 100 for l in losses)
    post: _
    """
    pre, first, bidx = _drive(sc_mod.TrainLoss(patience=patience, min_delta=min_delta), losses, False, "train")
    efirst, ebest = ref_run(losses if first < 0 else losses[: first + 1], patience, min_delta)
    return (not pre) and first == ref_run(losses, patience, min_delta)[0] and bidx == ebest


def check_trainloss_nonfloat(losses: List[float], patience: int, min_delta: float) -> bool:
    """
    pre: 0 <= patience <= 3 and 0 <= min_delta <= 8
    pre: 1 <= len(losses) <= MAXLEN
    pre: all(0 <= l <= 100 for l in losses)
    post: _
    """
    pre, first, bidx = _drive(sc_nf.TrainLoss(patience=patience, min_delta=min_delta), losses, True, "train")
    efirst, ebest = ref_run(losses if first < 0 else losses[: first + 1], patience, min_delta)
    return (not pre) and first == ref_run(losses, patience, min_delta)[0] and bidx == ebest


def check_valloss_float(losses: List[float], patience: int, min_delta: float) -> bool:
    """
    pre: 0 <= patience <= 3 and 0 <= min_delta <= 8
    pre: 1 <= len(losses) <= MAXLEN
    pre: all(0 <= l <= 100 for l in losses)
    post: _
    """
    pre, first, bidx = _drive(sc_mod.ValLoss(patience=patience, min_delta=min_delta), losses, False, "val")
    efirst, ebest = ref_run(losses if first < 0 else losses[: first + 1], patience, min_delta)
    return (not pre) and first == ref_run(losses, patience, min_delta)[0] and bidx == ebest


def check_valloss_nonfloat(losses: List[float], patience: int, min_delta: float) -> bool:
    """
    pre: 0 <= patience <= 3 and 0 <= min_delta <= 8
    pre: 1 <= len(losses) <= MAXLEN
    pre: all(0 <= l <= 100 for l in losses)
    post: _
    """
    pre, first, bidx = _drive(sc_nf.ValLoss(patience=patience, min_delta=min_delta), losses, True, "val")
    efirst, ebest = ref_run(losses if first < 0 else losses[: first + 1], patience, min_delta)
    return (not pre) and first == ref_run(losses, patience, min_delta)[0] and bidx == ebest


def check_step_train(best: float, since: int, loss: float, patience: int, min_delta: float, wrap: bool) -> bool:
    """
    One inductive step from an arbitrary reachable state (best so far, epochs since best).
    pre: 0 <= patience <= 5 and 0 <= min_delta <= 8 and 0 <= since <= patience
    pre: 0 <= best <= 100 and 0 <= loss <= 100
    post: _
    """
    sc = _mod(wrap).TrainLoss(patience=patience, min_delta=min_delta)
    sc.best_train_loss = best
    sc.epochs_since_best = since
    sc.best_model = ("model", "old")
    r = sc.stop(("model", "new"), 7, NF(loss) if wrap else loss, None, 0.0)
    if loss < best - min_delta:
        return (not r or patience < 0) and sc.epochs_since_best == 0 and sc.best_model == ("model", "new") and _float_stub(sc.best_train_loss) == loss
    return r == (since + 1 > patience) and sc.epochs_since_best == since + 1 and sc.best_model == ("model", "old") and sc.best_train_loss == best


def check_step_val(best: float, since: int, loss: float, patience: int, min_delta: float, wrap: bool) -> bool:
    """
    pre: 0 <= patience <= 5 and 0 <= min_delta <= 8 and 0 <= since <= patience
    pre: 0 <= best <= 100 and 0 <= loss <= 100
    post: _
    """
    sc = _mod(wrap).ValLoss(patience=patience, min_delta=min_delta)
    sc.best_val_loss = best
    sc.epochs_since_best = since
    sc.best_model = ("model", "old")
    r = sc.stop(("model", "new"), 7, None, NF(loss) if wrap else loss, 0.0)
    if loss < best - min_delta:
        return (not r) and sc.epochs_since_best == 0 and sc.best_model == ("model", "new") and _float_stub(sc.best_val_loss) == loss
    return r == (since + 1 > patience) and sc.epochs_since_best == since + 1 and sc.best_model == ("model", "old") and sc.best_val_loss == best


def check_epochstop(epochs: int, n: int) -> bool:
    """
    Stops after exactly `epochs` epochs and hands back the last model.
    pre: 1 <= epochs <= 12 and 0 <= n <= 14
    post: _
    """
    sc = sc_mod.EpochStop(epochs)
    first = -1
    for e in range(n + 1):  # e = number of completed epochs at the time of the call, as in ml.train
        if sc.stop(("model", e), e, 1.0 if e else None, None, 0.0):
            first = e
            break
    want = epochs if epochs <= n else -1
    return first == want and (first < 0 or sc.best_model == ("model", first))


# ---------------------------------------------------------------------------------------------------------------------------
# The real training loop.  The source of `ml.train` is cut out of /repo's training.py (ast) on every run and compiled in a
# namespace of stubs: get_batches -> one batch per epoch, train_step -> ("model", number of steps so far) and the next loss of
# a symbolic history (an NF: the loop adds and divides jax scalars, never floats), map_loss_in_batches -> the next validation
# loss, random.split / jax.devices / optimizer.init / eqx.filter / time / wandb / save -> inert.  The stopping conditions are
# the real classes.  So CrossHair executes the loop's own control flow - when stop() is consulted, with which model and which
# losses, what is handed back - for every loss history within the bounds.
import ast as _ast
import __future__ as _future


LOOP_MAXLEN = min(MAXLEN, 4)  # history bound for the whole-loop contracts (3 quick, 4 thorough: each extra epoch multiplies the paths)


class _Exhausted(Exception):
    pass


class _Inert:
    def __getattr__(self, name):
        return lambda *a, **k: None


def _load_train(wrap):
    path = os.path.join(_REPO, "src/ginjax/ml/training.py")
    tree = _ast.parse(open(path).read())
    fn = [n for n in tree.body if isinstance(n, _ast.FunctionDef) and n.name == "train"][0]
    code = compile(_ast.Module(body=[fn], type_ignores=[]), path, "exec", flags=_future.annotations.compiler_flag, dont_inherit=True)
    mod = _mod(wrap)
    ns = {"ValLoss": mod.ValLoss, "TrainLoss": mod.TrainLoss, "EpochStop": mod.EpochStop, "StopCondition": mod.StopCondition}
    exec(code, ns)
    return ns


def _run_train(kind, losses, patience, min_delta, nb=1, conv=None, wrap=True):
    """-> (epochs run or -1 if the history ran out before the loop stopped, returned model, returned train loss, returned val loss)"""
    conv = conv or NF
    ns = _load_train(wrap)
    state = {"steps": 0, "epochs": 0}

    def get_batches(mi, batch_size, key, devices):
        if state["epochs"] >= len(losses):
            raise _Exhausted()
        return [("xb", j) for j in range(nb)], [("yb", j) for j in range(nb)]

    def train_step(map_and_loss, model, optimizer, opt_state, xb, yb, aux):
        state["steps"] += 1
        l = losses[state["epochs"]] if kind == "train" else 50.0
        if state["steps"] % nb == 0:
            state["epochs"] += 1
        return ("model", state["steps"]), opt_state, conv(l), aux

    def map_loss_in_batches(map_and_loss, model, vx, vy, batch_size, key, devices=None, aux_data=None):
        return conv(losses[state["epochs"] - 1]) if kind == "val" else conv(50.0)

    class _Random:
        @staticmethod
        def split(key, n=2):
            return key, key

    class _Jax(_Inert):
        @staticmethod
        def devices():
            return ["cpu0"]

    class _Eqx(_Inert):
        @staticmethod
        def filter(m, pred, *a, **k):
            return m
    ns.update(get_batches=get_batches, train_step=train_step, map_loss_in_batches=map_loss_in_batches, random=_Random, jax=_Jax(), eqx=_Eqx(),
              time=type("T", (), {"time": staticmethod(lambda: 0.0)}), wandb=_Inert(), save=lambda *a, **k: None)
    cls = ns["TrainLoss"] if kind == "train" else ns["ValLoss"]
    sc = cls(patience=patience, min_delta=min_delta)
    val = kind == "val"
    try:
        out_model, _, el, vl = ns["train"]("X", "Y", None, ("model", 0), 0, sc, 2, _Inert(), "VX" if val else None, "VY" if val else None)
    except _Exhausted:
        return -1, None, None, None
    return state["epochs"], out_model, el, vl


def _train_spec(kind, losses, patience, min_delta, nb=1, conv=None, wrap=True):
    ran, out_model, el, vl = _run_train(kind, losses, patience, min_delta, nb, conv, wrap)
    efirst, _ = ref_run(losses, patience, min_delta)
    if efirst < 0:
        return ran == -1          # a history that keeps the condition open: the loop must still be running when it ends
    ebest = ref_run(losses[: efirst + 1], patience, min_delta)[1]
    return ran == efirst + 1 and out_model == ("model", (ebest + 1) * nb)


def check_train_loop_trainloss(losses: List[float], patience: int, min_delta: float) -> bool:
    """
    The real ml.train with TrainLoss: runs exactly up to the specified stopping epoch and returns the model of the best epoch.
    pre: 0 <= patience <= 2 and 0 <= min_delta <= 8
    pre: 1 <= len(losses) <= LOOP_MAXLEN
    pre: all(0 <= l <= 100 for l in losses)
    post: _
    """
    return _train_spec("train", losses, patience, min_delta)


def check_train_loop_valloss(losses: List[float], patience: int, min_delta: float) -> bool:
    """
    The real ml.train with ValLoss and validation data.
    pre: 0 <= patience <= 2 and 0 <= min_delta <= 8
    pre: 1 <= len(losses) <= LOOP_MAXLEN
    pre: all(0 <= l <= 100 for l in losses)
    post: _
    """
    return _train_spec("val", losses, patience, min_delta)


def canary_train_loop(losses: List[float]) -> bool:
    """
    Deliberately wrong specification (ml.train returns the LAST model): must be refuted.
    pre: 2 <= len(losses) <= 3
    pre: all(0 <= l <= 100 for l in losses)
    post: _
    """
    ran, out_model, el, vl = _run_train("train", losses, 0, 0.0)
    return ran == -1 or out_model == ("model", ran)


def canary_patience(losses: List[float], patience: int) -> bool:
    """
    Deliberately wrong specification (patience off by one): must be refuted.
    pre: 0 <= patience <= 2 and 1 <= len(losses) <= 4
    pre: all(0 <= l <= 100 for l in losses)
    post: _
    """
    pre, first, bidx = _drive(sc_mod.TrainLoss(patience=patience, min_delta=0), losses, False, "train")
    return first == ref_run(losses, patience + 1, 0)[0]


def canary_reach(losses: List[float]) -> bool:
    """
    Reachability twin: claims the condition never stops; must be refuted.
    pre: 1 <= len(losses) <= 3
    pre: all(0 <= l <= 100 for l in losses)
    post: _
    """
    pre, first, bidx = _drive(sc_mod.TrainLoss(patience=0, min_delta=0), losses, False, "train")
    return first == -1 or _never()


def _never():
    return False
