"""CrossHair harness for the real ginjax.data.time_series_idxs (C15 part i).

The function's only use of jax is jnp.arange(...)[:, None] + jnp.arange(...)[None, :]; CrossHair cannot take symbolic ints
through the compiled jax boundary, so `jnp` in the function's globals is replaced by a lazy shim with the same semantics
(arange, [:,None], [None,:], broadcasting +, len).  The function's code object is the real one, loaded from /repo.
"""
import types
import ginjax.data as gd


class L1:
    def __init__(s, start, n, step):
        s.start, s.n, s.step = start, n, step

    def __getitem__(s, key):
        if key == (slice(None), None):
            return L2(s.n, 1, lambda i, j: s.start + i * s.step, (True, False))
        if key == (None, slice(None)):
            return L2(1, s.n, lambda i, j: s.start + j * s.step, (False, True))
        raise NotImplementedError(key)

    def __len__(s):
        return s.n


class L2:
    def __init__(s, r, c, f, dep):
        s.r, s.c, s.f, s.dep = r, c, f, dep

    def __add__(a, b):
        r = a.r if a.dep[0] else b.r
        c = a.c if a.dep[1] else b.c
        return L2(r, c, lambda i, j: a.f(i, j) + b.f(i, j), (a.dep[0] or b.dep[0], a.dep[1] or b.dep[1]))

    def __len__(s):
        return s.r


class Shim:
    @staticmethod
    def arange(a, b=None, step=1):
        if b is None:
            a, b = 0, a
        n = -((a - b) // step)
        if n < 0:
            n = 0
        return L1(a, n, step)


_f = types.FunctionType(gd.time_series_idxs.__code__, {**gd.time_series_idxs.__globals__, "jnp": Shim}, gd.time_series_idxs.__name__,
                        gd.time_series_idxs.__defaults__, gd.time_series_idxs.__closure__)
_f.__kwdefaults__ = gd.time_series_idxs.__kwdefaults__


def check_idxs(p: int, f: int, dt: int, T: int, w: int, j: int, jf: int) -> bool:
    """
    pre: 1 <= p <= 6 and 1 <= f <= 6 and 1 <= dt <= 4 and 1 <= T <= 48
    pre: T - (p + f - 1) * dt >= 1
    pre: 0 <= w < T - (p + f - 1) * dt
    pre: 0 <= j < p and 0 <= jf < f
    post: _
    """
    a, b = _f(p, f, dt, T)
    W = T - (p + f - 1) * dt
    return (len(a) == W and len(b) == W and a.c == p and b.c == f
            and a.f(w, j) == w + j * dt and b.f(w, jf) == w + (p + jf) * dt
            and b.f(w, jf) > a.f(w, p - 1) and b.f(w, jf) < T and a.f(w, j) >= 0)


def canary_idxs(p: int, f: int, dt: int, T: int, w: int, jf: int) -> bool:
    """
    pre: 1 <= p <= 6 and 1 <= f <= 6 and 1 <= dt <= 4 and 1 <= T <= 48
    pre: T - (p + f - 1) * dt >= 1
    pre: 0 <= w < T - (p + f - 1) * dt
    pre: 0 <= jf < f
    post: _
    """
    a, b = _f(p, f, dt, T)
    return b.f(w, jf) == w + p + jf * dt  # wrong unless dt == 1: must be refuted


def concrete_check(p, f, dt, T):
    """Un-instrumented replay / shim validation: the real function with the real jnp against the specification."""
    import numpy as np
    a, b = gd.time_series_idxs(p, f, dt, T)
    a, b = np.asarray(a), np.asarray(b)
    W = T - (p + f - 1) * dt
    ok = a.shape == (W, p) and b.shape == (W, f)
    for w in range(W):
        for j in range(p):
            ok = ok and a[w, j] == w + j * dt
        for j in range(f):
            ok = ok and b[w, j] == w + (p + j) * dt and b[w, j] > a[w, p - 1] and b[w, j] < T
    sa, sb = _f(p, f, dt, T)
    shim_ok = len(sa) == a.shape[0] and sa.c == a.shape[1] and all(sa.f(w, j) == a[w, j] for w in range(W) for j in range(p)) \
        and len(sb) == b.shape[0] and sb.c == b.shape[1] and all(sb.f(w, j) == b[w, j] for w in range(W) for j in range(f))
    return bool(ok), bool(shim_ok)
