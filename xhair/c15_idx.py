"""CrossHair harness for the real ginjax.data.time_series_idxs (C15 part i).

The function's only use of jax is jnp.arange(...)[:, None] + jnp.arange(...)[None, :]; CrossHair cannot take symbolic ints
through the compiled jax boundary, so `jnp` in the function's globals is replaced by a lazy shim with the same semantics
(arange, [:,None], [None,:], broadcasting +, len).  The function's code object is the real one, loaded from /repo.
"""
import types
import ginjax.data as gd


class LZ:
    """Lazy integer array of rank <= 2: shape + an index function.  Supports what window-index arithmetic is written with
    (arange, asarray, [:, None] / [None, :], expand_dims, reshape to a row/column, broadcasting + and * , add.outer, len, shape)."""

    def __init__(s, shape, f):
        s.shape, s.f = tuple(shape), f

    @property
    def ndim(s):
        return len(s.shape)

    # the harness reads results through these
    @property
    def c(s):
        return s.shape[1]

    def __len__(s):
        return s.shape[0]

    def at(s, i, j):
        return s.f(i, j) if s.ndim == 2 else s.f(i)

    def __getitem__(s, key):
        if s.ndim == 1 and key == (slice(None), None):
            return LZ((s.shape[0], 1), lambda i, j: s.f(i))
        if s.ndim == 1 and key == (None, slice(None)):
            return LZ((1, s.shape[0]), lambda i, j: s.f(j))
        if s.ndim == 1 and key == (None,):
            return LZ((1, s.shape[0]), lambda i, j: s.f(j))
        raise NotImplementedError(key)

    def reshape(s, *shape):
        shape = shape[0] if len(shape) == 1 and isinstance(shape[0], (tuple, list)) else shape
        if s.ndim == 1 and tuple(shape) in ((-1, 1), (s.shape[0], 1)):
            return s[:, None]
        if s.ndim == 1 and tuple(shape) in ((1, -1), (1, s.shape[0])):
            return s[None, :]
        raise NotImplementedError(shape)

    def astype(s, *_a, **_k):
        return s

    def _bin(a, b, op):
        if not isinstance(b, LZ):
            if a.ndim == 1:
                return LZ(a.shape, lambda i: op(a.f(i), b))
            return LZ(a.shape, lambda i, j: op(a.f(i, j), b))
        if a.ndim == 1 and b.ndim == 1:
            return LZ(a.shape, lambda i: op(a.f(i), b.f(i)))
        A = a if a.ndim == 2 else a[None, :]
        B = b if b.ndim == 2 else b[None, :]
        r = A.shape[0] if A.shape[0] != 1 else B.shape[0]
        c = A.shape[1] if A.shape[1] != 1 else B.shape[1]
        fa = lambda i, j: A.f(i if A.shape[0] != 1 else 0, j if A.shape[1] != 1 else 0)
        fb = lambda i, j: B.f(i if B.shape[0] != 1 else 0, j if B.shape[1] != 1 else 0)
        return LZ((r, c), lambda i, j: op(fa(i, j), fb(i, j)))

    def __add__(a, b):
        return a._bin(b, lambda x, y: x + y)

    __radd__ = __add__

    def __mul__(a, b):
        return a._bin(b, lambda x, y: x * y)

    __rmul__ = __mul__

    def __sub__(a, b):
        return a._bin(b, lambda x, y: x - y)


class _Add:
    def __call__(self, a, b):
        return Shim.asarray(a) + b

    @staticmethod
    def outer(a, b):
        return Shim.asarray(a)[:, None] + Shim.asarray(b)[None, :]


class Shim:
    int32 = int64 = int_ = None
    add = _Add()

    @staticmethod
    def arange(a, b=None, step=1, dtype=None):
        if b is None:
            a, b = 0, a
        n = -((a - b) // step)
        if n < 0:
            n = 0
        return LZ((n,), lambda i: a + i * step)

    @staticmethod
    def asarray(x, dtype=None):
        if isinstance(x, LZ):
            return x
        raise NotImplementedError("asarray of a non-lazy value")

    array = asarray

    @staticmethod
    def expand_dims(x, axis):
        if x.ndim == 1 and axis in (1, -1):
            return x[:, None]
        if x.ndim == 1 and axis == 0:
            return x[None, :]
        raise NotImplementedError(axis)


def _f(*args, **kwargs):
    """The real time_series_idxs (and whatever private helpers of ginjax.data it calls) with the module's `jnp` / `np`
    names bound to the lazy shim for the duration of the call."""
    saved = {n: gd.__dict__[n] for n in ("jnp", "np", "numpy") if n in gd.__dict__}
    try:
        for n in saved:
            gd.__dict__[n] = Shim
        return gd.time_series_idxs(*args, **kwargs)
    finally:
        gd.__dict__.update(saved)


def check_idxs(p: int, f: int, dt: int, T: int, w: int, j: int, jf: int) -> bool:
    """
    pre: 1 <= p <= 6 and 1 <= f <= 6 and 1 <= dt <= 4 and 1 <= T <= 48
    pre: T - (p + f - 1) * dt >= 1
    pre: 0 <= w < T - (p + f - 1) * dt
    pre: 0 <= j < p and 0 <= jf < f
    post: _
    """
    a, b = _f(p, f, dt, T)
    W = T - (p + f - 1) * dt
    return (len(a) == W and len(b) == W and a.c == p and b.c == f
            and a.at(w, j) == w + j * dt and b.at(w, jf) == w + (p + jf) * dt
            and b.at(w, jf) > a.at(w, p - 1) and b.at(w, jf) < T and a.at(w, j) >= 0)


def canary_idxs(p: int, f: int, dt: int, T: int, w: int, jf: int) -> bool:
    """
    pre: 1 <= p <= 6 and 1 <= f <= 6 and 1 <= dt <= 4 and 1 <= T <= 48
    pre: T - (p + f - 1) * dt >= 1
    pre: 0 <= w < T - (p + f - 1) * dt
    pre: 0 <= jf < f
    post: _
    """
    a, b = _f(p, f, dt, T)
    return b.at(w, jf) == w + p + jf * dt  # wrong unless dt == 1: must be refuted


def concrete_check(p, f, dt, T):
    """Un-instrumented replay / shim validation: the real function with the real jnp against the specification."""
    import numpy as np
    a, b = gd.time_series_idxs(p, f, dt, T)
    a, b = np.asarray(a), np.asarray(b)
    W = T - (p + f - 1) * dt
    ok = a.shape == (W, p) and b.shape == (W, f)
    for w in range(W):
        for j in range(p):
            ok = ok and a[w, j] == w + j * dt
        for j in range(f):
            ok = ok and b[w, j] == w + (p + j) * dt and b[w, j] > a[w, p - 1] and b[w, j] < T
    try:
        sa, sb = _f(p, f, dt, T)
    except Exception:  # noqa: BLE001 - the current source uses something the lazy shim does not model
        return bool(ok), False
    shim_ok = len(sa) == a.shape[0] and sa.c == a.shape[1] and all(sa.at(w, j) == a[w, j] for w in range(W) for j in range(p)) \
        and len(sb) == b.shape[0] and sb.c == b.shape[1] and all(sb.at(w, j) == b[w, j] for w in range(W) for j in range(f))
    return bool(ok), bool(shim_ok)


def enumerate_spec(pmax=6, fmax=6, dtmax=4, Tmax=48):
    """Fallback when the lazy shim does not apply to the current source: the same bounded domain, every tuple, real function.
    -> (number of tuples, first failing tuple or None)"""
    import numpy as np
    n = 0
    for p in range(1, pmax + 1):
        for f in range(1, fmax + 1):
            for dt in range(1, dtmax + 1):
                for T in range(1, Tmax + 1):
                    W = T - (p + f - 1) * dt
                    if W < 1:
                        continue
                    n += 1
                    try:
                        a, b = gd.time_series_idxs(p, f, dt, T)
                        a, b = np.asarray(a), np.asarray(b)
                        ok = a.shape == (W, p) and b.shape == (W, f) \
                            and np.array_equal(a, np.arange(W)[:, None] + dt * np.arange(p)[None, :]) \
                            and np.array_equal(b, np.arange(W)[:, None] + dt * (p + np.arange(f))[None, :])
                    except Exception:  # noqa: BLE001
                        ok = False
                    if not ok:
                        return n, (p, f, dt, T)
    return n, None
