"""C03 — generated invariant filters are invariant, independent and complete."""
from __future__ import annotations

import itertools

import numpy as np

from props.common import gkey

INFO = {
    "explanation": "get_unique_invariant_filters / get_invariant_filters are run for real (nothing continuous to quantify over); their "
                   "float entries are taken at exact rational value.  z3 (QF_LRA) then decides, with symbolic weights w and a symbolic "
                   "generic filter X: (inv) g.(sum w_i F_i) = sum w_i F_i for every g and w; (ind) sum w_i F_i = 0 => w = 0; "
                   "(cmp) X invariant under all of G and orthogonal to every F_i => X = 0.  The count is compared with Burnside's "
                   "number computed independently in integers.",
    "functions": ["geom.get_unique_invariant_filters", "geom.get_invariant_filters", "geom.get_invariant_filters_dict",
                  "geom.get_invariant_filters_list", "GeometricFilter.normalize", "GeometricFilter.rectify", "GeometricFilter.bigness",
                  "MultiImage.from_images"],
    "bounds": {
        "quick": "G in {B_d, rotations, C2^d, C4 (d=2), trivial} + all 10 subgroups of B_2 (M 2,3; k<=2) + a seeded 24 of the 98 subgroups of B_3 (M=2 k=1, M=3 k=0); d=2: M 1..5, k 0..3 (k<=2 for M=5; trivial group M<=3,k<=2); d=3: M in {1,2,3}, k 0..2 "
                 "(k<=1 for the 48-element group at M=3 in quick); p in {0,1}; scale in {normalize, one}",
        "thorough": "all 10 subgroups of B_2 (M 2..4, k<=2) and all 98 subgroups of B_3 (M 2,3; k<=2); d=2: M 1..5, k 0..4; d=3: M 1..3 k 0..3 (k=3 at M<=2), M=4,5 at k<=1",
    },
    "outside": ["groups that are not signed-permutation groups", "float32 rounding inside the generation (entries are used as produced)"],
    "assumptions": ["filter entries are taken at the exact rational value of the float32 the code produced"],
}


def _groups(D):
    from jxsmt import refs
    import ginjax.geometric as geom
    allops = [np.asarray(g) for g in geom.make_all_operators(D)]
    out = {
        "B": allops,
        "rot": [g for g in allops if refs.det_signed_perm(g) == 1],
        "C2": [np.asarray(g) for g in geom.make_C2_group(D)],
        "triv": [np.eye(D, dtype=int)],
    }
    if D == 2:
        r = np.array([[0, -1], [1, 0]])
        out["C4"] = [np.linalg.matrix_power(r, i) for i in range(4)]
    return out


def _closure(gens, D):
    els = {tuple(np.eye(D, dtype=int).reshape(-1))}
    frontier = list(els)
    while frontier:
        new = []
        for e in frontier:
            E = np.array(e).reshape(D, D)
            for g in gens:
                t = tuple(int(v) for v in (np.asarray(g) @ E).reshape(-1))
                if t not in els:
                    els.add(t)
                    new.append(t)
        frontier = new
    return frozenset(els)


def all_subgroups(D):
    """Every subgroup of the hyperoctahedral group B_D (10 for D=2, 98 for D=3), each as a generator
    list (gkeys), enumerated by the harness from closures of <=3 elements; sorted deterministically."""
    from jxsmt import refs
    ops = [np.asarray(g) for g in refs.all_signed_perms(D)]
    subs = {}
    for a in ops:
        subs.setdefault(_closure([a], D), [a])
    for a, b in itertools.combinations(ops, 2):
        subs.setdefault(_closure([a, b], D), [a, b])
    for s_, gens in list(subs.items()):
        for c in ops:
            if tuple(int(v) for v in c.reshape(-1)) not in s_:
                subs.setdefault(_closure(gens + [c], D), gens + [c])
    items = sorted(subs.items(), key=lambda kv: (len(kv[0]), sorted(kv[0])))
    return [(len(els), [gkey(g) for g in gens]) for els, gens in items]


def cells(tier, seed):
    out = []
    def mk(G, D, M, k, p, scale="normalize"):
        return {"G": G, "D": D, "M": M, "k": k, "p": p, "scale": scale}
    for M in range(1, 6):
        kmax = (3 if M < 5 else 2) if tier == "quick" else 4
        for k in range(0, kmax + 1):
            for p in (0, 1):
                for G in ("B", "rot", "C2", "C4"):
                    if tier == "quick" and G in ("rot", "C4") and (M in (4,) or k == 3):
                        continue
                    out.append(mk(G, 2, M, k, p))
                if M <= 3 and k <= 2 and p == 0:
                    out.append(mk("triv", 2, M, k, p))
    out.append(mk("B", 2, 3, 1, 0, "one"))
    out.append(mk("B", 2, 3, 2, 1, "one"))
    out.append(mk("C2", 2, 4, 1, 1, "one"))
    for M in (1, 2, 3):
        for k in range(0, 3 if tier == "quick" else 4):
            for p in (0, 1):
                for G in ("B", "rot", "C2"):
                    if k == 3 and M > 2:
                        continue
                    if tier == "quick" and M == 3 and k == 2 and G in ("B", "rot"):
                        continue
                    out.append(mk(G, 3, M, k, p))
    if tier == "thorough":
        for M in (4, 5):
            for k in (0, 1):
                for p in (0, 1):
                    out.append(mk("B", 3, M, k, p))
        out.append(mk("triv", 3, 2, 1, 0))
    # large d=3 instances (basis size n = M^3 * 3^k beyond 591: |B_3| * n^2 > 2^24) - one in the quick tier, the rest thorough
    out.append(mk("B", 3, 3, 3, 0))
    if tier == "thorough":
        out += [mk("B", 3, 3, 3, 1), mk("B", 3, 5, 2, 0), mk("rot", 3, 3, 3, 0), mk("B", 3, 4, 3, 0)]
    # every subgroup of B_2 (10) and of B_3 (98; quick: a seeded third of them at small M), given by generators
    import random

    def other_same_order(subs, i):
        """a different subgroup of the same order (asked for FIRST in the same process: the result for a group must not depend on
        which groups the generator served before - module-level caches)"""
        same = [j for j, (o, _) in enumerate(subs) if o == subs[i][0] and j != i]
        return subs[same[i % len(same)]][1] if same else None
    subs2 = all_subgroups(2)
    for i, (order, gens) in enumerate(subs2):
        for M in ((2, 3) if tier == "quick" else (2, 3, 4)):
            for k in (0, 1, 2):
                for p in (0, 1):
                    out.append({"G": "gen", "gens": gens, "order": order, "D": 2, "M": M, "k": k, "p": p, "scale": "normalize",
                                "prev_gens": other_same_order(subs2, i)})
    subs3_all = all_subgroups(3)
    idx3 = list(range(len(subs3_all)))
    if tier == "quick":
        idx3 = random.Random(seed).sample(idx3, 24)
    for i in idx3:
        order, gens = subs3_all[i]
        for M, k in (((2, 1), (3, 0)) if tier == "quick" else ((2, 0), (2, 1), (2, 2), (3, 0), (3, 1), (3, 2))):
            for p in (0, 1):
                out.append({"G": "gen", "gens": gens, "order": order, "D": 3, "M": M, "k": k, "p": p, "scale": "normalize",
                            "prev_gens": other_same_order(subs3_all, i)})
    out.append({"G": "B", "D": 2, "M": 3, "k": -1, "p": 0, "scale": "normalize", "blk": True})
    out.append({"G": "B", "D": 3, "M": 3, "k": -1, "p": 0, "scale": "normalize", "blk": True})
    return out


def exhaustive(tier):
    return True


def run_cell(cfg, cx):
    import jax.numpy as jnp
    import ginjax.geometric as geom
    from jxsmt import sym as S, refs
    from jxsmt.sym import Poly

    D, M, k, p, G = cfg["D"], cfg["M"], cfg["k"], cfg["p"], cfg["G"]
    if G == "gen":
        from props.common import gmat
        ops = [np.array(e).reshape(D, D) for e in sorted(_closure([gmat(q, D) for q in cfg["gens"]], D))]
        G = "gen(" + ",".join(cfg["gens"]) + ")"
    else:
        ops = _groups(D)[G]
    if cfg.get("blk"):
        _blocks(cfg, cx, ops)
        return
    ckey = f"G={G}:D={D}:M={M}:k={k}:p={p}:scale={cfg['scale']}"
    if cfg.get("prev_gens"):
        from props.common import gmat as _gm
        prev = [np.array(e).reshape(D, D) for e in sorted(_closure([_gm(q, D) for q in cfg["prev_gens"]], D))]
        geom.get_unique_invariant_filters(M, k, p, D, prev, cfg["scale"])  # history: another group of the same order was served first
    filters = geom.get_unique_invariant_filters(M, k, p, D, ops, cfg["scale"])
    n = len(filters)
    shape = (M,) * D + (D,) * k
    ok_shapes = all(tuple(f.data.shape) == shape and f.parity == p % 2 and f.D == D and f.k == k for f in filters)
    cx.structural("filter types", ok_shapes, "a generated filter has the wrong shape / parity / D", key=f"type:{ckey}")
    expected = refs.burnside_count(ops, M, k, p)
    cx.structural("cnt[Burnside]", n == expected, f"{n} filters generated, fixed-subspace dimension is {expected}", key=f"cnt:{ckey}")
    if n == 0:
        # completeness with an empty family: the invariant subspace must be {0}
        pass
    Fs = [S.const_array(np.asarray(f.data, dtype=np.float32)).a for f in filters]
    Ff = [np.asarray(f.data, dtype=np.float64) for f in filters]
    w = S.var_array("w", (max(n, 1),)).a
    comb = np.empty(shape, dtype=object)
    cf = comb.reshape(-1)
    for j in range(cf.size):
        acc = S.ZERO
        for i in range(n):
            q = Fs[i].reshape(-1)[j]
            if q.t:
                acc = acc + w[i] * q
        cf[j] = acc

    def comb_float(vals):
        wv = np.array([vals.get(f"w_{i}", 0.0) for i in range(n)], dtype=np.float64)
        return wv, sum((wv[i] * Ff[i] for i in range(n)), np.zeros(shape))

    # (inv)
    if n:
        for g in ops:
            lhs = refs.ref_action(D, comb, p, g)

            def replay_inv(vals, bvals, g=g):
                wv, c = comb_float(vals)
                return cx.deviates(refs.ref_action(D, c, p, g), c)
            cx.equal(f"inv[g={gkey(g)}]", lhs, comb, replay=replay_inv, key=f"inv:{ckey}:g={gkey(g)}")
        # and through the repo's own action for one non-trivial element (ties C03 to the action users apply)
        g = ops[-1]
        from jxsmt import interp as I
        lhs = I.sym_call(lambda x: geom.times_group_element(D, x, p, g), S.Sym(comb))
        cx.equal(f"inv.repo_action[g={gkey(g)}]", lhs, comb,
                 replay=lambda vals, bvals: cx.deviates(np.asarray(geom.times_group_element(D, jnp.asarray(comb_float(vals)[1], dtype=jnp.float32), p, g)),
                                                        comb_float(vals)[1]), key=f"inv.repo:{ckey}")
        # (ind)  sum w_i F_i = 0  =>  w = 0
        assum = [S.eq(q, S.ZERO) for q in cf]
        goal = S.band(*[S.eq(w[i], S.ZERO) for i in range(n)])

        def replay_ind(vals, bvals):
            wv, c = comb_float(vals)
            ok = np.max(np.abs(wv)) > 0 and np.max(np.abs(c)) <= 1e-4 * np.max(np.abs(wv))
            return bool(ok), f"w={wv.tolist()} max|sum w_i F_i|={np.max(np.abs(c)):.3g}"
        cx.holds("ind", goal, replay=replay_ind, assumptions=assum, key=f"ind:{ckey}")
        # canary for (ind): claim that w_0 must vanish even without the premise (must be refuted)
        cx.holds("canary[ind without premise]", S.eq(w[0], S.ZERO), canary=True)
    # (cmp)  X invariant and orthogonal to all F_i  =>  X = 0
    X = S.var_array("X", shape).a
    assum = []
    for g in ops:
        gx = refs.ref_action(D, X, p, g)
        for a, b in zip(gx.reshape(-1), X.reshape(-1)):
            e = S.eq(a, b)
            if e.op != "true":
                assum.append(e)
    for i in range(n):
        acc = S.ZERO
        for a, b in zip(X.reshape(-1), Fs[i].reshape(-1)):
            if b.t:
                acc = acc + a * b
        assum.append(S.eq(acc, S.ZERO))
    goal = S.band(*[S.eq(q, S.ZERO) for q in X.reshape(-1)])

    def replay_cmp(vals, bvals):
        x = cx.conc(S.Sym(X), vals, dtype=np.float64)
        nx = float(np.max(np.abs(x)))
        if nx == 0:
            return False, "X = 0"
        inv = max(float(np.max(np.abs(refs.ref_action(D, x, p, g) - x))) for g in ops)
        orth = max([abs(float(np.sum(x * f))) for f in Ff] + [0.0])
        ok = inv <= 1e-6 * nx and orth <= 1e-4 * nx
        return ok, f"invariant X != 0 outside the span: |X|={nx:.3g} invariance defect={inv:.3g} max|<X,F_i>|={orth:.3g}"
    cx.holds("cmp", goal, replay=replay_cmp, assumptions=assum, key=f"cmp:{ckey}")
    # canary for (cmp): drop the orthogonality premises -> must be refuted whenever the family is non-empty
    if n:
        cx.holds("canary[cmp without orthogonality]", goal, assumptions=assum[: len(assum) - n], canary=True)


def _blocks(cfg, cx, ops):
    """get_invariant_filters: blocks hold the same filters under the right (k,p) key."""
    import ginjax.geometric as geom
    D, M = cfg["D"], cfg["M"]
    ks = [0, 1, 2] if D == 2 else [0, 1]
    ps = [0, 1]
    mi = geom.get_invariant_filters([M], ks, ps, D, ops)
    dct, maxn = geom.get_invariant_filters_dict([M], ks, ps, D, ops)
    lst = geom.get_invariant_filters_list([M], ks, ps, D, ops)
    exp_keys = {(k, p) for k in ks for p in ps if len(dct[(D, M, k, p)])}
    cx.structural("blk.keys", set(mi.keys()) == exp_keys, f"keys {sorted(mi.keys())} expected {sorted(exp_keys)}")
    tot = 0
    for k in ks:
        for p in ps:
            fl = geom.get_unique_invariant_filters(M, k, p, D, ops)
            tot += len(fl)
            if not fl:
                continue
            blk = np.asarray(mi[(k, p)])
            ok = blk.shape == (len(fl),) + (M,) * D + (D,) * k and all(
                np.array_equal(blk[i], np.asarray(f.data)) for i, f in enumerate(fl))
            cx.structural(f"blk.values[{k},{p}]", ok, f"block ({k},{p}) of get_invariant_filters differs from get_unique_invariant_filters")
    cx.structural("blk.list", len(lst) == tot and mi.D == D, f"list has {len(lst)} filters, expected {tot}")
    cx.structural("blk.maxn", maxn[(D, M)] == max(len(v) for v in dct.values()), "maxn bookkeeping wrong")
