"""C15 — time-series windowing yields exactly the causal (past, future) pairs."""
from __future__ import annotations

import itertools
import random

import numpy as np

INFO = {
    "explanation": "(i) CrossHair executes the real data.time_series_idxs symbolically (T, p, f, dt and probe indices symbolic ints; jnp replaced by "
                   "a lazy arange/broadcast shim validated against real jnp) and confirms window count, in[w,j]=w+j*dt, out[w,jf]=w+(p+jf)*dt, "
                   "causality.  (ii) JXSMT executes the real times_series_to_multi_images / batch_time_series symbolically per "
                   "(T,p,f,dt,s,downsample) with every field entry a z3 Real and z3 decides that every output block equals the specified "
                   "gather (per channel, time order), constants appended to inputs only and unchanged, trajectory-major stacking, "
                   "down-sampling = average pooling of the specification.",
    "functions": ["data.time_series_idxs", "data.times_series_to_multi_images", "data.batch_time_series", "MultiImage.expand",
                  "MultiImage.combine_axes", "MultiImage.append", "MultiImage.average_pool"],
    "bounds": {
        "quick": "(i) p,f<=6, dt<=4, T<=48 symbolic; (ii) T<=8, p,f<=3, dt<=3, s<=2, downsample<=1, types {(0,0)x2,(1,0)x1} + constants {(0,0)x1} / "
                 "{(1,0)x1} / none, trajectories<=2, d=2 2x2 (4x2 with downsampling): ~60 seeded cells + core",
        "thorough": "(ii) T<=12, trajectories<=3, 400 cells",
    },
    "outside": ["float32 (data movement is exact; average pooling uses the exact 1/4)"],
    "assumptions": ["CrossHair: jnp.arange / broadcasting replaced by a lazy shim with the same semantics (validated on samples each run)"],
}


def _valid(c):
    return c["T"] - c["s"] - (c["p"] + c["f"] - 1) * c["dt"] >= 1


def cells(tier, seed):
    rng = random.Random(seed + 15)
    Tmax = 8 if tier == "quick" else 12
    out = []
    def mk(T, p, f, dt, s, ds, const, traj):
        return {"T": T, "p": p, "f": f, "dt": dt, "s": s, "ds": ds, "const": const, "traj": traj}
    core = [mk(5, 2, 1, 1, 0, 0, "scalar", 0), mk(8, 2, 2, 2, 1, 0, "vector", 0), mk(6, 1, 1, 3, 2, 0, "none", 0),
            mk(7, 3, 1, 1, 0, 1, "scalar", 0), mk(6, 2, 1, 1, 1, 0, "scalar", 2), mk(8, 1, 3, 2, 0, 0, "both", 2),
            mk(5, 3, 2, 1, 0, 0, "none", 2), mk(4, 1, 1, 1, 2, 1, "vector", 2)]
    allc = []
    for T in range(2, Tmax + 1):
        for p, f, dt, s in itertools.product(range(1, 4), range(1, 4), range(1, 4), range(0, 3)):
            for ds in (0, 1):
                for const in ("none", "scalar", "vector", "both"):
                    for traj in ((0, 2) if tier == "quick" else (0, 2, 3)):
                        c = mk(T, p, f, dt, s, ds, const, traj)
                        if _valid(c):
                            allc.append(c)
    n = 50 if tier == "quick" else 400
    res = [c for c in core if _valid(c)] + rng.sample(allc, n)
    # stored type order: every third cell (and two core cells) builds its multi-images with the types out of sorted order
    res = [dict(c, rev=True) if (i % 3 == 1) else c for i, c in enumerate(res)]
    res.append({"xhair": True, "T": 0, "p": 0, "f": 0, "dt": 0, "s": 0, "ds": 0, "const": "none", "traj": 0})
    return res


def exhaustive(tier):
    return False


def run_cell(cfg, cx):
    if cfg.get("xhair"):
        from xhair import runner
        runner.run_c15(cx)
        return
    import jax
    import jax.numpy as jnp
    import ginjax.geometric as geom
    import ginjax.data as gdata
    from jxsmt import sym as S, interp as I
    from fractions import Fraction

    D = 2
    T, p, f, dt, s, ds, traj = cfg["T"], cfg["p"], cfg["f"], cfg["dt"], cfg["s"], cfg["ds"], cfg["traj"]
    shape = (4, 2) if ds else (2, 2)
    dyn_sig = [((0, 0), 2), ((1, 0), 1)]
    const_sig = {"none": [], "scalar": [((0, 0), 1)], "vector": [((1, 0), 1)], "both": [((1, 0), 2), ((0, 1), 1)]}[cfg["const"]]
    lead = (traj,) if traj else ()
    dyn = {kp: S.var_array(f"d{kp[0]}{kp[1]}", lead + (c * T,) + shape + (D,) * kp[0]) for kp, c in dyn_sig}
    con = {kp: S.var_array(f"c{kp[0]}{kp[1]}", lead + (c,) + shape + (D,) * kp[0]) for kp, c in const_sig}
    flags = (True, False)
    meta = {}

    def run(dy, co):
        # (dicts that cross the trace boundary come back with sorted keys: the stored order is imposed here, inside the trace)
        korder = (lambda d: sorted(d, reverse=True)) if cfg.get("rev") else (lambda d: sorted(d))
        md = geom.MultiImage({kp: dy[kp] for kp in korder(dy)}, D, flags)
        mc = geom.MultiImage({kp: co[kp] for kp in korder(co)}, D, flags)
        fn = gdata.batch_time_series if traj else gdata.times_series_to_multi_images
        X, Y = fn(md, mc, T, p, f, s, dt, ds)
        meta.update(xk=list(X.keys()), yk=list(Y.keys()), D=(X.D, Y.D), t=(X.is_torus, Y.is_torus))
        return dict(X.data), dict(Y.data)

    X, Y = I.sym_call(run, dyn, con)
    ckey = f"T={T}:p={p}:f={f}:dt={dt}:s={s}:ds={ds}:const={cfg['const']}:traj={traj}" + (":rev" if cfg.get("rev") else "")
    W = T - s - (p + f - 1) * dt

    def pool(a, nlead):
        # average pooling by 2 over the D spatial axes following nlead leading axes (exact rationals)
        for _ in range(ds):
            sp = a.shape[nlead:nlead + D]
            new = np.empty(a.shape[:nlead] + tuple(n // 2 for n in sp) + a.shape[nlead + D:], dtype=object)
            for idx in np.ndindex(*new.shape):
                px = idx[nlead:nlead + D]
                acc = S.ZERO
                for off in itertools.product(range(2), repeat=D):
                    src = idx[:nlead] + tuple(2 * px[d] + off[d] for d in range(D)) + idx[nlead + D:]
                    acc = acc + a[src]
                new[idx] = acc * Fraction(1, 4)
            a = new
        return a

    def spec(dy, co):
        """Per trajectory: X (W, c*p + n_const, ...), Y (W, c*f, ...)"""
        Xs, Ys = {}, {}
        for kp, c in dyn_sig:
            a = dy[kp]  # (c*T, spatial, tensor)
            xs = np.empty((W, c * p) + a.shape[1:], dtype=object)
            ys = np.empty((W, c * f) + a.shape[1:], dtype=object)
            for w in range(W):
                for ch in range(c):
                    for j in range(p):
                        xs[w, ch * p + j] = a[ch * T + s + w + j * dt]
                    for j in range(f):
                        ys[w, ch * f + j] = a[ch * T + s + w + (p + j) * dt]
            Xs[kp], Ys[kp] = xs, ys
        for kp, c in const_sig:
            rep = np.broadcast_to(co[kp][None], (W,) + co[kp].shape)
            Xs[kp] = np.concatenate([Xs[kp], rep], axis=1) if kp in Xs else np.array(rep, dtype=object)
        return {k: pool(v, 2) for k, v in Xs.items()}, {k: pool(v, 2) for k, v in Ys.items()}

    if traj:
        per = [spec({kp: v.a[t] for kp, v in dyn.items()}, {kp: v.a[t] for kp, v in con.items()}) for t in range(traj)]
        eX = {k: np.concatenate([q[0][k] for q in per], axis=0) for k in per[0][0]}
        eY = {k: np.concatenate([q[1][k] for q in per], axis=0) for k in per[0][1]}
    else:
        eX, eY = spec({kp: v.a for kp, v in dyn.items()}, {kp: v.a for kp, v in con.items()})
    cx.structural("types", set(X) == set(eX) and set(Y) == set(eY) and meta["D"] == (D, D) and meta["t"] == (flags, flags),
                  f"X keys {sorted(X)} (expected {sorted(eX)}), Y keys {sorted(Y)} (expected {sorted(eY)}); constants must not reach the target",
                  key=f"types:{ckey}")

    def mkreplay(which, kp):
        def replay(vals, bvals):
            dy = {q: jnp.asarray(cx.conc(v, vals)) for q, v in dyn.items()}
            co = {q: jnp.asarray(cx.conc(v, vals)) for q, v in con.items()}
            rx, ry = run(dy, co)
            got = (rx if which == "X" else ry)[kp]
            expd = (eX if which == "X" else eY)[kp]
            ev = np.empty(expd.shape)
            from jxsmt.sym import CTX
            def val(i):
                return float(vals.get(CTX.atoms[i][1], 0.0))
            for idx in np.ndindex(*expd.shape):
                ev[idx] = float(expd[idx].eval(val))
            return cx.deviates(np.asarray(got), ev)
        return replay
    for kp in eX:
        if kp in X:
            cx.equal(f"inputs[{kp}]", X[kp], eX[kp], replay=mkreplay("X", kp), key=f"X:{kp}:{ckey}")
    for kp in eY:
        if kp in Y:
            cx.equal(f"targets[{kp}]", Y[kp], eY[kp], replay=mkreplay("Y", kp), key=f"Y:{kp}:{ckey}")
    nwin = next(iter(X.values())).shape[0] if X else 0
    cx.structural("window count", nwin == W * max(traj, 1), f"{nwin} samples, expected {W * max(traj, 1)}", key=f"count:{ckey}")
    # causality: no target time is an input time of the same sample (on the variables actually placed)
    kp0 = dyn_sig[0][0]
    if kp0 in X and kp0 in Y and not ds:
        ok = True
        for w in range(min(nwin, X[kp0].shape[0])):
            xin = {next(iter(q.atoms())) for q in X[kp0].a[w].reshape(-1) if q.t}
            yout = {next(iter(q.atoms())) for q in Y[kp0].a[w].reshape(-1) if q.t}
            ok = ok and not (xin & yout)
        cx.structural("causality", ok, "a target frame is also an input frame of the same sample", key=f"causal:{ckey}")
    # canary: targets shifted by one step must be refuted
    if kp0 in Y and W * max(traj, 1) > 1:
        cx.canary("canary[targets shifted by one window]", Y[kp0], np.roll(eY[kp0], 1, axis=0))
    elif kp0 in Y:
        cx.canary("canary[targets doubled]", Y[kp0], eY[kp0] * 2)
