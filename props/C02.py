"""C02 — the group action on images is a genuine, type-correct group action."""
from __future__ import annotations

import itertools

import numpy as np

from props.common import group_elements, gkey, perm_axes, is_three_cycle

INFO = {
    "explanation": "geom.times_group_element (with get_rotated_keys / hash), GeometricImage.times_group_element and "
                   "MultiImage.times_group_element are traced and executed symbolically with every image entry a z3 Real and "
                   "compared with the defining formula (g.A)(x) = det(g)^p g^{(x)k} A(g^-1 (x-c') + c) written independently "
                   "with exact rational centres; homomorphism (gh).A = g.(h.A) is asked on the repo's own composition; the "
                   "per-pixel squared norm is a polynomial identity; metadata is read off the traced objects.",
    "functions": ["geom.times_group_element", "geom.get_rotated_keys", "geom.hash", "GeometricImage.times_group_element",
                  "MultiImage.times_group_element", "geom.make_all_operators", "geom.make_C2_group"],
    "bounds": {
        "quick": "d=1 N<=4 (multi-image entry point); d=2 shapes (3,3),(2,3),(1,3),(3,4),(4,4); d=3 (2,2,2),(1,2,3),(2,3,4); k<=2 (k<=1 in d=3 "
                 "non-cubic); p in {0,1}; (F) all g; (H) all pairs d<=2, generator pairs d=3; 0..2 leading axes",
        "thorough": "adds k=3 (d=2), k=2 (d=3), all 2304 pairs on (2,2,2) and (1,2,3), shapes (2,4),(3,5),(4,4,4)x k=0",
    },
    "outside": ["float32 rounding", "k >= 4"],
    "assumptions": ["real arithmetic"],
}


def cells(tier, seed):
    out = []
    def mk(D, shape, k, p, pairs, entry="all"):
        return {"D": D, "shape": tuple(shape), "k": k, "p": p, "pairs": pairs, "entry": entry}
    for shape in [(3, 3), (2, 3), (1, 3), (3, 4), (4, 4)] + ([(2, 4), (3, 5)] if tier == "thorough" else []):
        for k in range(0, 3 if tier == "quick" else 4):
            if k == 3 and shape not in [(3, 3), (2, 3)]:
                continue
            for p in (0, 1):
                out.append(mk(2, shape, k, p, "all"))
    for shape in [(2, 2, 2), (1, 2, 3), (2, 3, 4)] + ([(4, 4, 4)] if tier == "thorough" else []):
        kmax = 1 if (tier == "quick" and shape != (2, 2, 2)) else 2
        if shape == (4, 4, 4):
            kmax = 0
        for k in range(0, kmax + 1):
            for p in (0, 1):
                pairs = "all" if (tier == "thorough" and shape in [(2, 2, 2), (1, 2, 3)] and k <= 1) else "generators"
                out.append(mk(3, shape, k, p, pairs))
    for N in (1, 3, 4):
        for p in (0, 1):
            out.append(mk(1, (N,), 0, p, "all", entry="multi"))
    out.append({"D": 0, "tables": True, "shape": (), "k": 0, "p": 0, "pairs": "none", "entry": "none"})
    out.append({"D": 2, "dtypes": True, "shape": (3, 2), "k": 0, "p": 1, "pairs": "none", "entry": "none"})
    return out


def exhaustive(tier):
    return True  # the listed configuration space is enumerated completely (all g; pairs as stated)


def run_cell(cfg, cx):
    import jax.numpy as jnp
    import ginjax.geometric as geom
    from jxsmt import sym as S, interp as I, refs

    if cfg.get("dtypes"):
        return _dtypes(cx)
    if cfg.get("tables"):
        _group_tables(cx)
        return
    D, shape, k, p = cfg["D"], tuple(cfg["shape"]), cfg["k"], cfg["p"]
    gs = group_elements(D)
    A = S.var_array("A", shape + (D,) * k)
    ckey = f"D={D}:shape={shape}:k={k}:p={p}"

    def act(x, g):
        return geom.times_group_element(D, x, p, np.asarray(g))

    images = {}
    if cfg["entry"] != "multi":
        # translator validation on a seeded integer image
        rng = np.random.RandomState(3)
        a0 = rng.randint(-3, 4, size=A.shape).astype(np.float32)
        g0 = gs[len(gs) // 2]
        got = I.sym_call(lambda x: act(x, g0), S.const_array(a0))
        real = np.asarray(act(jnp.asarray(a0), g0))
        mine = np.array([float(q.const_value()) for q in got.a.reshape(-1)]).reshape(got.shape)
        if mine.shape != real.shape or not np.allclose(mine, real, atol=1e-5):
            raise I.Unsupported("translator validation failed for times_group_element")
        cx.validated_against_impl()

        for g in gs:
            tag = "3cycle" if is_three_cycle(g) else "other"
            try:
                out = I.sym_call(lambda x: act(x, g), A)
            except I.Unsupported:
                raise
            images[gkey(g)] = out
            ref = refs.ref_action(D, A.a, p, g)

            def replay(vals, bvals, g=g):
                a = cx.conc(A, vals)
                return cx.deviates(np.asarray(act(jnp.asarray(a), g)), refs.ref_action(D, a, p, g))
            cx.equal(f"F[g={gkey(g)}]", out, ref, replay=replay, key=f"F:{ckey}:g={gkey(g)}:{tag}")
            # linear: every output entry is a homogeneous degree-1 polynomial in the image entries
            lin = all(q.degree() <= 1 and not q.t.get((), 0) for q in out.a.reshape(-1))
            cx.structural(f"linear[g={gkey(g)}]", lin, "output entries are not homogeneous linear", key=f"lin:{ckey}:g={gkey(g)}")
            # per-pixel Frobenius norm preserved (squared: polynomial identity), pixels moved by the reference bijection
            nd, mp = refs.pixel_map(g, shape)
            if out.shape == tuple(nd) + (D,) * k:
                lhs_n, rhs_n = [], []
                for x, y in mp.items():
                    lhs_n.append(sum((q * q for q in out.a[x].reshape(-1)), S.ZERO) if k else out.a[x] * out.a[x])
                    rhs_n.append(sum((q * q for q in A.a[y].reshape(-1)), S.ZERO) if k else A.a[y] * A.a[y])
                cx.equal(f"N[g={gkey(g)}]", np.array(lhs_n, dtype=object), np.array(rhs_n, dtype=object),
                         replay=replay, key=f"N:{ckey}:g={gkey(g)}:{tag}")
            bij = sorted(mp.values()) == sorted(itertools.product(*[range(n) for n in shape]))
            cx.structural(f"bijection[g={gkey(g)}]", bij, "reference pixel map is not a bijection")
        # identity
        e = np.eye(D, dtype=int)
        cx.equal("I[identity]", images[gkey(e)], A.a, key=f"I:{ckey}")
        # homomorphism on the repo's own composition
        if cfg["pairs"] == "all":
            pairs = [(g, h) for g in gs for h in gs]
        else:
            gen = group_elements(D, "generators")
            pairs = [(g, h) for g in gen for h in gen] + [(g, np.asarray(g).T) for g in gs]
        for g, h in pairs:
            gh = np.asarray(g) @ np.asarray(h)
            hA = images[gkey(h)]
            try:
                ghA_step = I.sym_call(lambda x: act(x, g), hA)
            except I.Unsupported:
                raise
            ghA = images[gkey(gh)]
            tag = "3cycle" if (is_three_cycle(g) or is_three_cycle(h) or is_three_cycle(gh)) else "other"

            def replay_h(vals, bvals, g=g, h=h, gh=gh):
                a = jnp.asarray(cx.conc(A, vals))
                return cx.deviates(np.asarray(act(act(a, h), g)), np.asarray(act(a, gh)))
            cx.equal(f"H[g={gkey(g)},h={gkey(h)}]", ghA_step, ghA, replay=replay_h,
                     key=f"H:{ckey}:g={gkey(g)}:h={gkey(h)}:{tag}")
        # canary: g.A declared equal to g^T.A for an element of order 4 (must be refuted)
        gen = group_elements(D, "generators")
        r = gen[1]
        cx.canary("canary[g vs g^T]", images[gkey(r)], refs.ref_action(D, A.a, p, np.asarray(r).T) if
                  refs.rotated_dims(r, shape) == refs.rotated_dims(np.asarray(r).T, shape) else A.a,
                  replay=lambda vals, bvals: cx.deviates(np.asarray(act(jnp.asarray(cx.conc(A, vals)), r)),
                                                         refs.ref_action(D, cx.conc(A, vals), p, np.asarray(r).T)))

    # ---- (M) entry points realise the same action, metadata transported
    flags = tuple(i % 2 == 0 for i in range(D)) if D > 1 else (True,)
    gl = gs if D <= 2 else group_elements(D, "generators") + [np.eye(3, dtype=int)]
    for g in gl:
        g = np.asarray(g)
        tag = "3cycle" if is_three_cycle(g) else "other"
        exp_dims = refs.rotated_dims(g, shape)
        exp_flags = perm_axes(g, flags)
        if D > 1:
            meta = {}

            def gi_act(x):
                o = geom.GeometricImage(x, p, D, flags).times_group_element(g)
                meta.update(D=o.D, k=o.k, parity=o.parity, is_torus=o.is_torus, dims=o.spatial_dims)
                return o.data
            out = I.sym_call(gi_act, A)
            ref = refs.ref_action(D, A.a, p, g)

            def replay_gi(vals, bvals, g=g):
                a = cx.conc(A, vals)
                o = geom.GeometricImage(jnp.asarray(a), p, D, flags).times_group_element(g)
                return cx.deviates(np.asarray(o.data), refs.ref_action(D, a, p, g))
            cx.equal(f"M.image[g={gkey(g)}]", out, ref, replay=replay_gi, key=f"M.image:{ckey}:g={gkey(g)}:{tag}")
            ok = meta["D"] == D and meta["k"] == k and meta["parity"] == p % 2 and tuple(meta["dims"]) == tuple(exp_dims)
            cx.structural(f"M.image.type[g={gkey(g)}]", ok, f"got {meta}, expected D={D} k={k} p={p} dims={exp_dims}",
                          key=f"M.image.type:{ckey}:g={gkey(g)}:{tag}")
            cx.structural(f"M.image.flags[g={gkey(g)}]", tuple(meta["is_torus"]) == tuple(exp_flags),
                          f"is_torus {meta['is_torus']} expected {exp_flags} (flags {flags} carried by g)",
                          key=f"M.image.flags:{ckey}:g={gkey(g)}:swap={tuple(exp_flags) != tuple(flags)}")
        for lead in ((), (2,), (3, 2)):
            B = S.var_array("B", lead + shape + (D,) * k)
            meta = {}

            def mi_act(x):
                m = geom.MultiImage({(k, p): x}, D, flags)
                o = m.times_group_element(g)
                meta.update(D=o.D, is_torus=o.is_torus, keys=list(o.keys()))
                return o[(k, p)]
            nonsq = tuple(exp_dims) != tuple(shape)
            mkey = f"M.multi:{ckey}:lead={len(lead)}:g={gkey(g)}:{tag}:nonsq={nonsq}"
            try:
                out = I.sym_call(mi_act, B)
            except I.Unsupported:
                raise
            except Exception as e:  # noqa: BLE001  (real code raised while being traced)
                def replay_exc(vals, bvals, g=g, lead=lead):
                    try:
                        geom.MultiImage({(k, p): jnp.zeros(lead + shape + (D,) * k)}, D, flags).times_group_element(g)
                    except Exception as e2:  # noqa: BLE001
                        return True, f"raises {type(e2).__name__}: {str(e2)[:120]}"
                    return False, "did not raise"
                cx.structural(f"M.multi[lead={len(lead)},g={gkey(g)}]", False, f"raised {type(e).__name__}: {str(e)[:160]}",
                              replay=replay_exc, key=mkey)
                continue
            ref = refs.ref_action(D, B.a, p, g, lead=len(lead))

            def replay_mi(vals, bvals, g=g, lead=lead, B=B):
                b = cx.conc(B, vals)
                o = geom.MultiImage({(k, p): jnp.asarray(b)}, D, flags).times_group_element(g)
                return cx.deviates(np.asarray(o[(k, p)]), refs.ref_action(D, b, p, g, lead=len(lead)))
            cx.equal(f"M.multi[lead={len(lead)},g={gkey(g)}]", out, ref, replay=replay_mi, key=mkey)
            ok = meta["D"] == D and meta["keys"] == [(k, p)]
            cx.structural(f"M.multi.type[lead={len(lead)},g={gkey(g)}]", ok, f"got {meta}")
            cx.structural(f"M.multi.flags[lead={len(lead)},g={gkey(g)}]", tuple(meta["is_torus"]) == tuple(exp_flags),
                          f"is_torus {meta['is_torus']} expected {exp_flags}",
                          key=f"M.multi.flags:{ckey}:g={gkey(g)}:swap={tuple(exp_flags) != tuple(flags)}")


def _dtypes(cx):
    """The action is a pixel permutation times signs: on exactly representable data of any storage type (half precision, complex,
    integer) every entry point returns exactly the defining formula's values.  Concrete facts (dtype
    semantics are outside the real-arithmetic solver claims)."""
    import jax.numpy as jnp
    import ginjax.geometric as geom
    from jxsmt import refs
    D, shape = 2, (3, 2)
    rng = np.random.default_rng(2)
    for dt in ("float32", "float16", "complex64", "int32"):
        for k in (0, 1, 2):
            for g in (np.eye(2, dtype=int), np.array([[0, -1], [1, 0]]), np.array([[1, 0], [0, -1]])):
                a = rng.integers(-3, 4, size=shape + (D,) * k).astype(np.complex128)
                if dt == "complex64":
                    a = a + 1j * rng.integers(-3, 4, size=a.shape)
                x = jnp.asarray(a, dtype=dt)
                want = refs.ref_action(D, np.asarray(a), 1, g)
                outs = {"array": lambda: geom.times_group_element(D, x, 1, g),
                        "image": lambda: geom.GeometricImage(x, 1, D, True).times_group_element(g).data,
                        "multi": lambda: geom.MultiImage({(k, 1): x[None]}, D, True).times_group_element(g)[(k, 1)][0]}
                for nm, fn in outs.items():
                    try:
                        o = fn()
                        # (which inexact type the result is stored in is the library's choice; the VALUES have to be the formula's)
                        ok = np.array_equal(np.asarray(o).astype(np.complex128), np.asarray(want, dtype=np.complex128))
                        det = f"dtype {o.dtype}, max deviation {np.max(np.abs(np.asarray(o).astype(np.complex128) - want)):.3g}"
                    except Exception as e:  # noqa: BLE001
                        ok, det = False, f"raised {type(e).__name__}: {str(e)[:100]}"
                    cx.structural(f"action on {dt} data, k={k}, g={gkey(g)}, entry {nm}", ok, det, key=f"dtype:{dt}:k={k}:g={gkey(g)}:{nm}")


def _group_tables(cx):
    import ginjax.geometric as geom
    from jxsmt import refs
    import math

    def gkey(g):  # total: the tables may contain anything
        return repr(np.asarray(g).tolist())
    for D in (1, 2, 3):
        ops = [np.asarray(g) for g in geom.make_all_operators(D)]
        keys = {gkey(g) for g in ops}
        cx.structural(f"tables.size[D={D}]", len(ops) == 2 ** D * math.factorial(D) and len(keys) == len(ops),
                      f"{len(ops)} operators, {len(keys)} distinct")
        sp = True
        try:
            for g in ops:
                refs.signed_perm(g)
        except Exception:  # noqa: BLE001 - anything that is not a signed permutation
            sp = False
        cx.structural(f"tables.signed_perm[D={D}]", sp, "an operator is not a signed permutation matrix")
        closed = all(gkey(g @ h) in keys for g in ops for h in ops)
        inv = all(gkey(g.T) in keys and np.array_equal(g @ g.T, np.eye(D, dtype=int)) for g in ops)
        cx.structural(f"tables.closed[D={D}]", closed and inv and gkey(np.eye(D, dtype=int)) in keys, "not closed / no inverses / no identity")
        same = keys == {gkey(g) for g in refs.all_signed_perms(D)}
        cx.structural(f"tables.is_B_D[D={D}]", same, "make_all_operators != hyperoctahedral group")
        c2 = [np.asarray(g) for g in geom.make_C2_group(D)]
        k2 = {gkey(g) for g in c2}
        ok = len(c2) == 2 ** D and len(k2) == 2 ** D and all(np.array_equal(np.abs(g), np.eye(D, dtype=int)) for g in c2) \
            and all(gkey(g @ h) in k2 for g in c2 for h in c2)
        cx.structural(f"tables.C2[D={D}]", ok, "make_C2_group is not the axis-flip group")
