"""C13 — re-layouts and serialisations of images are lossless round trips (save/load: concrete bit-pattern facts only, see INFO)."""
from __future__ import annotations

import itertools
import random

import numpy as np

INFO = {
    "explanation": "Each pair of inverse re-layout operations of MultiImage / GeometricImage is executed symbolically (every entry a z3 Real) "
                   "through the real methods and z3 (QF_LRA) decides roundtrip(x) == x block by block, with D and is_torus compared on the "
                   "traced objects; to_scalar_multi_image is additionally compared with its documented layout (channel offset_t + c*D^k + i). "
                   "Chains of up to three round trips are composed.",
    "functions": ["MultiImage.to_vector", "from_vector", "to_scalar_multi_image", "from_scalar_multi_image", "concat", "concat_inverse", "append",
                  "expand", "combine_axes", "merge_axes", "reshape_pmap", "from_images", "to_images", "copy", "tree_flatten", "tree_unflatten",
                  "GeometricImage.tree_flatten", "GeometricImage.tree_unflatten", "GeometricImage.copy"],
    "bounds": {
        "quick": "d in {1,2,3}; shapes (3,),(2,3),(2,2),(1,2,3); signatures: 7 type lists (orders permuted) over k<=3, p in {0,1}, channels 1..4; "
                 "0..3 leading axes with pairwise distinct sizes; every applicable round trip per cell; seeded chains of length <=3",
        "thorough": "all orders of every signature x all leading layouts x all split axes; 300 seeded chains",
    },
    "outside": ["ml.save / ml.load: file I/O through eqx.tree_serialise_leaves / numpy's C serialiser cannot be encoded, so that sentence of C13 is NOT "
                "decided by the solver; the 'saveload' cells only record concrete structural facts (every array leaf, filled with pairwise distinct "
                "float32 bit patterns incl. -0.0, a denormal, inf and a NaN payload, comes back bit-identical at the same tree path after the real "
                "ml.save/ml.load into a differently initialised same-structured model, and the two models' outputs agree bit for bit)",
                "float32 (pure data movement: exact)"],
    "assumptions": [],
}

SIGS = {
    1: [[((0, 0), 2), ((0, 1), 3)], [((0, 1), 1)]],
    2: [[((0, 0), 2), ((1, 0), 1)], [((1, 0), 2), ((0, 1), 1), ((2, 0), 1)], [((1, 1), 3)], [((2, 1), 1), ((0, 0), 4)], [((3, 0), 1), ((1, 0), 2)]],
    3: [[((0, 0), 1), ((1, 0), 2)], [((1, 1), 1), ((2, 0), 1)]],
}
SHAPES = {1: [(3,)], 2: [(2, 3), (2, 2)], 3: [(1, 2, 3)]}
LEADS = [(), (), (5,), (5, 7)]  # leading axes in front of the channel axis (the channel axis itself comes from the signature)
TRIPS = ["vector", "scalar", "concat", "expand", "merge", "expand3", "merge3", "pmap", "pmapb", "images", "copy", "jit", "vmap", "flatten"]


def cells(tier, seed):
    rng = random.Random(seed + 13)
    out = []
    for D in (1, 2, 3):
        for si, sg in enumerate(SIGS[D]):
            orders = list(itertools.permutations(range(len(sg))))
            if tier == "quick":
                orders = [orders[0], orders[-1]] if len(orders) > 1 else orders
            for order in orders:
                for shape in SHAPES[D]:
                    for li, lead in enumerate([None, (), (5,), (5, 7), (6, 2)]):
                        # lead None: no channel axis at all (0 leading axes); (6, 2): a batch that several device counts divide
                        if tier == "quick" and D == 3 and li >= 3:
                            continue
                        if li == 4 and tier == "quick" and shape != SHAPES[D][0]:
                            continue
                        out.append({"D": D, "sig": si, "order": list(order), "shape": shape, "lead": lead, "chain": None})
    nchain = 40 if tier == "quick" else 300
    for _ in range(nchain):
        D = rng.choice([1, 2, 2, 3])
        si = rng.randrange(len(SIGS[D]))
        order = list(range(len(SIGS[D][si])))
        rng.shuffle(order)
        out.append({"D": D, "sig": si, "order": order, "shape": rng.choice(SHAPES[D]), "lead": rng.choice([(), (5,), (5, 7), (6, 2)]),
                    "chain": [rng.choice(TRIPS) for _ in range(rng.choice([2, 3]))]})
    for D in (2, 3):
        out.append({"kind": "metadata", "D": D})
    for mc in (SAVELOAD_MODELS if tier == "thorough" else SAVELOAD_MODELS[:3]) + SAVELOAD_WRAPPED:
        out.append({"kind": "saveload", "model": mc})
    return out


SAVELOAD_MODELS = [
    {"cls": "resnet", "D": 2, "sig": 1, "equiv": True, "norm": True, "depth": 2},
    {"cls": "unet", "D": 2, "sig": 0, "equiv": False, "norm": True, "depth": 2},
    {"cls": "dil", "D": 2, "sig": 2, "equiv": True, "depth": 1},
    {"cls": "unet", "D": 2, "sig": 1, "equiv": True, "norm": True, "depth": 1},
    {"cls": "resnet", "D": 3, "sig": 0, "equiv": False, "depth": 2},
    {"cls": "block", "D": 2, "sig": 3, "equiv": True, "bias": "mean"},
]
# wrapped in models.GroupAverage (python-scalar leaves `inference` / `always_average`, switched by eqx.nn.inference_mode before saving)
SAVELOAD_WRAPPED = [{"cls": "resnet", "D": 2, "sig": 0, "equiv": False, "depth": 1, "wrap": "groupaverage"}]


def exhaustive(tier):
    return False


def _metadata(cfg, cx):
    """Every MultiImage operation that returns a MultiImage keeps D, the boundary flags (permuted by a group element) and the
    types in their stored order (except where the operation is specified to change them): a table of discrete facts."""
    import jax
    import jax.numpy as jnp
    import ginjax.geometric as geom
    D = cfg["D"]
    N = 2
    for flags in ((True,) * D, tuple(i % 2 == 0 for i in range(D))):
        for types in ([((1, 0), 2), ((0, 1), 1), ((0, 0), 2)], [((0, 0), 1), ((1, 1), 2)], [((2, 0), 1), ((0, 0), 2)]):
            keys = [kp for kp, _ in types]
            m = geom.MultiImage({kp: jnp.ones((3, c) + (N,) * D + (D,) * kp[0]) for kp, c in types}, D, flags)
            g = np.eye(D, dtype=int)[::-1].copy() if D == 2 else np.roll(np.eye(3, dtype=int), 1, axis=0)
            gflags = tuple(bool(v) for v in np.abs(g) @ np.array(flags))
            same = (D, flags, keys)
            cases = {
                "copy": (lambda: m.copy(), same), "a+b": (lambda: m + m, same), "a-b": (lambda: m - m, same), "a*2": (lambda: m * 2.0, same),
                "a/2": (lambda: m / 2.0, same), "concat": (lambda: m.concat(m), same), "concat(axis=1)": (lambda: m.concat(m, axis=1), same),
                "concat_inverse[0]": (lambda: m.concat(m).concat_inverse({kp: 3 for kp in keys})[0], same),
                "concat_inverse[1]": (lambda: m.concat(m).concat_inverse({kp: 3 for kp in keys})[1], same),
                "from_vector": (lambda: geom.MultiImage.from_vector(m.to_vector(), m), same),
                "to_scalar_multi_image": (lambda: m.to_scalar_multi_image(), (D, flags, [(0, 0)])),
                "from_scalar_multi_image": (lambda: m.to_scalar_multi_image().from_scalar_multi_image(m.get_signature()), same),
                "times_group_element": (lambda: m.times_group_element(g), (D, gflags, keys)),
                "norm": (lambda: m.norm(), (D, flags, [(0, 0)])), "average_pool": (lambda: m.average_pool(2), same),
                "get_component": (lambda: m.get_one(0, keepdims=False).get_component(0), (D, flags, [(0, 0)])),
                "batch_get_component": (lambda: m.batch_get_component(0), (D, flags, [(0, 0)])), "expand": (lambda: m.expand(0, 1), same),
                "combine_axes": (lambda: m.combine_axes((0, 1)), same), "merge_axes": (lambda: m.merge_axes([0, 1]), same),
                "reshape_pmap": (lambda: m.reshape_pmap([None]), same), "get_subset": (lambda: m.get_subset(jnp.array([2, 0])), same),
                "get_one": (lambda: m.get_one(1), same), "get_one(keepdims=False)": (lambda: m.get_one(1, keepdims=False), same),
                "empty": (lambda: m.empty(), (D, flags, [])), "from_images(to_images)": (lambda: geom.MultiImage.from_images(m.get_one(0, keepdims=False).to_images()), same),
                "jit": (lambda: jax.jit(lambda q: q)(m), (D, flags, set(keys))), "vmap": (lambda: jax.vmap(lambda q: q)(m), (D, flags, set(keys))),
            }
            for nm, (fn, (eD, ef, ek)) in cases.items():
                try:
                    o = fn()
                    got = (o.D, tuple(o.is_torus), set(o.keys()) if isinstance(ek, set) else list(o.keys()))  # (jit/vmap: order is jax's business)
                except Exception as e:  # noqa: BLE001
                    got = f"raised {type(e).__name__}: {str(e)[:80]}"
                cx.structural(f"metadata of {nm} on {keys} flags={flags}", got == (eD, tuple(ef), ek),
                              f"(D, is_torus, types in stored order) = {got}, expected {(eD, tuple(ef), ek)}",
                              key=f"meta:{nm}:D={D}:types={keys}:flags={flags}")


def _saveload(cfg, cx):
    """Concrete structural facts about the real ml.save / ml.load (not solver-decided; see INFO['outside'])."""
    import os
    import tempfile
    import jax
    import jax.numpy as jnp
    import equinox as eqx
    import ginjax.geometric as geom
    import ginjax.ml as ml
    from props import C20
    mc = cfg["model"]
    ckey = ":".join(f"{a}={mc[a]}" for a in sorted(mc))

    def build(seed):
        import ginjax.models as models
        m, in_sig, out_sig, _ = C20._build(dict({a: b for a, b in mc.items() if a != "wrap"}, seed=seed))
        if mc.get("wrap") == "groupaverage":
            m = models.GroupAverage(m, [np.asarray(g) for g in geom.make_all_operators(mc["D"])])
        return m, in_sig, out_sig

    def probe(special):
        mA, in_sig, out_sig = build(1)
        mB, _, _ = build(2)
        # what a user does before saving a trained model: switch it to inference mode (flips python-bool leaves named `inference`)
        mA = eqx.nn.inference_mode(mA, True)
        pA, sA = eqx.partition(mA, eqx.is_array)
        leaves, td = jax.tree_util.tree_flatten(pA)
        new, ctr = [], 0
        for l in leaves:
            if jnp.issubdtype(l.dtype, jnp.floating) and l.dtype == jnp.float32:
                bits = (np.arange(l.size, dtype=np.uint32) + np.uint32(0x3F800000 + ctr)).reshape(l.shape)
                if special and l.size >= 4:
                    fb = bits.reshape(-1)
                    fb[:4] = np.array([0x80000000, 0x00000001, 0x7F800000, 0x7FC00123], dtype=np.uint32)
                ctr += l.size
                new.append(jnp.asarray(bits.view(np.float32)))
            else:
                new.append(l)
        mA2 = eqx.combine(jax.tree_util.tree_unflatten(td, new), sA)
        fd, fn = tempfile.mkstemp(suffix=".eqx")
        os.close(fd)
        try:
            ml.save(fn, mA2)
            mL = ml.load(fn, mB)
        finally:
            os.unlink(fn)
        fl = lambda m: jax.tree_util.tree_flatten_with_path(eqx.filter(m, eqx.is_array))[0]
        lL, tdL = [v for _, v in fl(mL)], [jax.tree_util.keystr(q) for q, _ in fl(mL)]
        lA, tdA = [v for _, v in fl(mA2)], [jax.tree_util.keystr(q) for q, _ in fl(mA2)]
        if tdL != tdA or len(lL) != len(lA):
            return False, f"tree structure changed: {len(lA)} leaves saved, {len(lL)} loaded"
        for i, (a, b) in enumerate(zip(lA, lL)):
            a, b = np.asarray(a), np.asarray(b)
            if a.shape != b.shape or a.dtype != b.dtype or a.tobytes() != b.tobytes():
                return False, f"leaf {i} {a.shape} {a.dtype} differs after save/load (first bytes {a.tobytes()[:8].hex()} vs {b.tobytes()[:8].hex()})"
        # every other (python scalar) leaf must come back too
        # (python bool/int/float/complex leaves are what eqx.tree_serialise_leaves stores besides arrays; callables are not leaves it stores)
        isnum = lambda v: isinstance(v, (bool, int, float, complex))
        oA = jax.tree_util.tree_leaves(eqx.filter(mA2, isnum))
        oL = jax.tree_util.tree_leaves(eqx.filter(mL, isnum))
        if len(oA) != len(oL) or any(type(a) is not type(b) or a != b for a, b in zip(oA, oL)):
            return False, f"non-array leaves differ after save/load: saved {oA[:8]} loaded {oL[:8]}"
        if special:
            return True, f"{len(lA)} array leaves ({ctr} float32 entries bit-identical), {len(oA)} scalar leaves equal"
        D = mc["D"]
        rng = np.random.default_rng(5)
        N = 4
        x = geom.MultiImage({q: jnp.asarray(rng.normal(size=(c,) + (N,) * D + (D,) * q[0]).astype(np.float32)) for q, c in in_sig}, D, True)
        ya, yl = mA2(x), mL(x)
        ya = ya[0] if isinstance(ya, tuple) else ya
        yl = yl[0] if isinstance(yl, tuple) else yl
        if list(ya.keys()) != list(yl.keys()):
            return False, f"output types differ {list(ya.keys())} vs {list(yl.keys())}"
        for q in ya.keys():
            if np.asarray(ya[q]).tobytes() != np.asarray(yl[q]).tobytes():
                return False, f"output block {q} of the loaded model differs from the saved model's"
        return True, f"{len(lA)} leaves, {ctr} float32 entries and the outputs bit-identical"

    for special in (False, True):
        ok, det = probe(special)
        cx.structural(f"saveload[{'special bit patterns' if special else 'distinct patterns + outputs'}]", ok, det,
                      replay=lambda v, b, special=special: (lambda r: (not r[0], r[1]))(probe(special)),
                      key=f"saveload:{int(special)}:{ckey}")


def _trip(name, m, geom, jax, jnp, n_lead, rec):
    """One round trip through the real methods; returns the restored MultiImage (or None if not applicable)."""
    D = m.D
    if name == "vector":
        return geom.MultiImage.from_vector(m.to_vector(), m)
    if name == "scalar":
        if n_lead < 1:
            return None
        sig = m.get_signature()
        s = m.to_scalar_multi_image()
        rec["scalar"] = s
        return s.from_scalar_multi_image(sig)
    if name == "concat":
        if n_lead < 1:
            return None
        res = m
        for axis in range(n_lead):
            sigd = {k: v.shape[axis] for k, v in m.items()}
            both = res.concat(m, axis=axis)
            a, b = both.concat_inverse(sigd, axis=axis)
            rec.setdefault("concat_a", []).append(a)
            res = b
        return res
    if name == "expand":
        if n_lead < 1:
            return None
        res = m
        for axis in range(n_lead):
            res = res.expand(axis, 1).combine_axes((axis, axis + 1))
            ch = n_lead - 1
        return res
    if name == "merge":
        if n_lead < 1:
            return None
        ax = n_lead - 1
        return m.expand(ax, 1).merge_axes([ax, ax + 1])
    if name in ("expand3", "merge3"):
        # three adjacent axes recombined at once (the last axis of the range is not the second one)
        if n_lead < 1:
            return None
        ax = n_lead - 1
        e = m.expand(ax, 1).expand(ax, 1)
        return e.combine_axes((ax, ax + 1, ax + 2)) if name == "expand3" else e.merge_axes([ax, ax + 1, ax + 2])
    if name in ("pmap", "pmapb"):
        if n_lead < 2:
            return None
        L = m.get_L()
        res = m
        proper = [d for d in range(2, L) if L % d == 0]
        # device counts dividing the batch, in particular 1 < nd < L (several devices AND several samples per device).  "pmap" and
        # "pmapb" use different proper divisors and are separate trips: two wrong splits can be each other's inverse when chained
        nds = ([1] + proper[:1] + [L]) if name == "pmap" else proper[-1:]
        if not nds:
            return None
        for nd in nds:
            res = res.reshape_pmap([None] * nd).merge_axes([0, 1])
        return res
    if name == "images":
        if n_lead != 1:
            return None
        imgs = m.to_images()
        rec["images"] = imgs
        return geom.MultiImage.from_images(imgs)
    if name == "copy":
        return m.copy()
    if name == "jit":
        return jax.jit(lambda q: q)(m)
    if name == "vmap":
        if n_lead < 2:
            return jax.tree_util.tree_map(lambda x: x[0], jax.vmap(lambda q: q)(jax.tree_util.tree_map(lambda x: x[None], m)))
        return jax.vmap(lambda q: q)(m)
    if name == "flatten":
        leaves, td = jax.tree_util.tree_flatten(m)
        return jax.tree_util.tree_unflatten(td, leaves)
    raise ValueError(name)


def run_cell(cfg, cx):
    import jax
    import jax.numpy as jnp
    import ginjax.geometric as geom
    from jxsmt import sym as S, interp as I

    if cfg.get("kind") == "saveload":
        return _saveload(cfg, cx)
    if cfg.get("kind") == "metadata":
        return _metadata(cfg, cx)
    D = cfg["D"]
    sg = [(tuple(kp), c) for kp, c in SIGS[D][cfg["sig"]]]
    sg = [sg[i] for i in cfg["order"]]
    shape = tuple(cfg["shape"])
    lead = cfg["lead"]
    flags = tuple(i % 2 == 0 for i in range(D))
    if lead is None:
        n_lead = 0
        blocks = {kp: S.var_array(f"x{kp[0]}{kp[1]}", shape + (D,) * kp[0]) for kp, c in sg}
    else:
        lead = tuple(lead)
        n_lead = len(lead) + 1
        blocks = {kp: S.var_array(f"x{kp[0]}{kp[1]}", lead + (c,) + shape + (D,) * kp[0]) for kp, c in sg}
    ckey = f"D={D}:sig={cfg['sig']}:order={cfg['order']}:shape={shape}:lead={cfg['lead']}"
    trips = [[t] for t in TRIPS] if cfg["chain"] is None else [cfg["chain"]]
    for chain in trips:
        meta = {}

        def run(bl):
            m = geom.MultiImage({kp: bl[kp] for kp, _ in sg}, D, flags)
            rec = {}
            for t in chain:
                r = _trip(t, m, geom, jax, jnp, n_lead, rec)
                if r is None:
                    meta["skip"] = True
                    return {}
                m = r
            meta.update(D=m.D, is_torus=m.is_torus, keys=list(m.keys()), skip=False)
            extra = {}
            if "scalar" in rec and len(chain) == 1:
                extra["scalar"] = rec["scalar"][(0, 0)]
                meta["scalar_keys"] = list(rec["scalar"].keys())
            if "images" in rec and len(chain) == 1:
                meta["images"] = [(im.k, im.parity, im.D, im.is_torus) for im in rec["images"]]
                extra["images"] = [im.data for im in rec["images"]]
            if "concat_a" in rec and len(chain) == 1:
                extra["concat_a"] = [dict(a.data) for a in rec["concat_a"]]
            return {"out": dict(m.data), "extra": extra}
        res = I.sym_call(run, blocks)
        if meta.get("skip"):
            continue
        name = "+".join(chain)
        out = res["out"]
        cx.structural(f"{name}: metadata", meta["D"] == D and tuple(meta["is_torus"]) == flags and set(meta["keys"]) == {kp for kp, _ in sg},
                      f"{meta}", key=f"meta:{name}:{ckey}")
        for kp, c in sg:
            if kp not in out:
                continue

            def replay(vals, bvals, kp=kp):
                bl = {q: jnp.asarray(cx.conc(v, vals)) for q, v in blocks.items()}
                r = run(bl)
                return cx.deviates(np.asarray(r["out"][kp]), np.asarray(bl[kp]), rtol=1e-6)
            cx.equal(f"{name}[{kp}]", out[kp], blocks[kp], replay=replay, key=f"rt:{name}:t={kp}:{ckey}")
        ex = res["extra"]
        if "scalar" in ex:
            # documented layout: scalar channel  offset_t + c*D^k + i  holds component i of channel c of type t
            sc = ex["scalar"]
            exp = None
            parts = []
            for kp, c in sg:
                k = kp[0]
                b = blocks[kp].a  # lead + (c,) + shape + (D,)*k
                nl = n_lead - 1
                b2 = np.moveaxis(b.reshape(b.shape[:nl + 1 + D] + (D ** k,)), -1, nl + 1)  # lead, c, comp, spatial
                parts.append(b2.reshape(b.shape[:nl] + (c * D ** k,) + shape))
            exp = np.concatenate(parts, axis=n_lead - 1)
            cx.equal("scalar layout", sc, exp, key=f"scalar-layout:{ckey}",
                     replay=lambda vals, bvals, exp=exp: cx.deviates(
                         np.asarray(geom.MultiImage({q: jnp.asarray(cx.conc(blocks[q], vals)) for q, _ in sg}, D, flags).to_scalar_multi_image()[(0, 0)]),
                         cx.expected(exp, vals), rtol=1e-6))
            cx.structural("scalar keys", meta["scalar_keys"] == [(0, 0)], f"{meta['scalar_keys']}")
            cx.canary("canary[scalar layout reversed]", sc, exp[(slice(None),) * (n_lead - 1) + (slice(None, None, -1),)]) if exp.shape[n_lead - 1] > 1 else None
        if "images" in ex:
            exp_imgs = []
            exp_meta = []
            for kp, c in sg:
                for ch in range(c):
                    exp_imgs.append(blocks[kp].a[ch])
                    exp_meta.append((kp[0], kp[1], D, flags))
            cx.structural("to_images metadata", meta["images"] == exp_meta, f"{meta['images']} vs {exp_meta}", key=f"images-meta:{ckey}")
            if len(exp_imgs) == len(ex["images"]):
                for i, (a, b) in enumerate(zip(ex["images"], exp_imgs)):
                    cx.equal(f"to_images[{i}]", a, b, key=f"images:{i}:{ckey}")
        if "concat_a" in ex:
            for axis, a in enumerate(ex["concat_a"]):
                for kp, c in sg:
                    if kp in a:
                        cx.equal(f"concat_inverse first part[axis={axis},{kp}]", a[kp], blocks[kp], key=f"concat-a:{axis}:{kp}:{ckey}")
                    else:
                        cx.structural(f"concat_inverse first part[axis={axis},{kp}]", False, "type missing from the first part", key=f"concat-a:{axis}:{kp}:{ckey}")
    if cfg["chain"] is None:
        kp0 = sg[0][0]
        b0 = blocks[kp0]
        if b0.size > 1:
            flat = b0.a.reshape(-1)
            wrong = np.roll(flat, 1).reshape(b0.shape)
            r = I.sym_call(lambda bl: dict(geom.MultiImage.from_vector(geom.MultiImage({kp: bl[kp] for kp, _ in sg}, D, flags).to_vector(),
                                                                         geom.MultiImage({kp: bl[kp] for kp, _ in sg}, D, flags)).data), blocks)
            cx.canary("canary[rolled block]", r[kp0], wrong)
        # GeometricImage pytree / copy round trips
        if D >= 1 and n_lead == 0:
            for kp, c in sg:
                gmeta = {}

                def gi(x, kp=kp):
                    im = geom.GeometricImage(x, kp[1], D, flags)
                    im2 = jax.jit(lambda q: q)(im).copy()
                    leaves, td = jax.tree_util.tree_flatten(im2)
                    im3 = jax.tree_util.tree_unflatten(td, leaves)
                    gmeta.update(k=im3.k, p=im3.parity, D=im3.D, t=im3.is_torus, dims=im3.spatial_dims)
                    return im3.data
                r = I.sym_call(gi, blocks[kp])
                cx.equal(f"GeometricImage jit/copy/flatten[{kp}]", r, blocks[kp], key=f"gi-rt:{kp}:{ckey}")
                cx.structural(f"GeometricImage metadata[{kp}]", (gmeta["k"], gmeta["p"], gmeta["D"], tuple(gmeta["t"]), tuple(gmeta["dims"])) ==
                              (kp[0], kp[1], D, flags, shape), f"{gmeta}")
