"""C08 — normalisation, nonlinearity and pooling blocks commute with the group action."""
from __future__ import annotations

import itertools

import numpy as np

from props.common import group_elements, gkey
from props import layers_common as LC

INFO = {
    "explanation": "The real GroupNorm/LayerNorm (incl. eqx.nn.GroupNorm on the scalar path and _group_norm_K1), VectorNeuronNonlinear, "
                   "geom.max_pool / MaxNormPool / GeometricImage.max_pool, average_pool and unpool are traced and executed symbolically with "
                   "inputs AND learnable parameters (scales, biases, mixing weights, GroupNorm weight/bias) as z3 Reals; z3 decides "
                   "block(g.x) = g.block(x) (and shift-commutation by multiples of the patch for pooling).  max-pool: argmax encoded exactly "
                   "(first index attaining the maximum, ITE selection) under the statement's precondition of a unique maximiser per patch.  "
                   "Activations are uninterpreted (relu = max(x,0) exactly).  The vector path's eigh is a stub with a covariance contract "
                   "asserted as an implication plus a column-sign-independence obligation.",
    "functions": ["ml._group_norm_K1", "ml.GroupNorm.__call__", "ml.LayerNorm", "eqx.nn.GroupNorm.__call__", "ml.VectorNeuronNonlinear.__call__",
                  "geom.max_pool", "ml.MaxNormPool.__call__", "GeometricImage.max_pool", "geom.average_pool", "GeometricImage.average_pool",
                  "GeometricImage.unpool", "geom.norm"],
    "bounds": {
        "quick": "d=2: all 8 g; max-pool N=4 patch 2 (N=6 patch 3 for k=0), types (0,0),(0,1),(1,0),(1,1),(2,0); VN: N=2, channels 2, relu/gelu/tanh, "
                 "types (0,0),(0,1),(1,0),(1,1),(2,0); GroupNorm: N=2 (vectors) / N=2 (scalars), channels 2 and 4, groups in divisors; "
                 "d=3: N=2 generators (pooling, VN, scalar norm)",
        "thorough": "adds d=3 N=4 pooling with all 48 g, patch 3, channels 4 vector norm",
    },
    "outside": ["the spectral lemma behind eigh (any valid eigendecomposition of g C g^T gives the same whitening) - assumed via the stub contract",
                "norm ties inside a pooling patch; degenerate eigenvalues; float32"],
    "assumptions": ["eigh returns a valid decomposition with simple eigenvalues: stub contract C' = g C g^T => (eigvals', eigvecs') = (eigvals, g eigvecs) "
                    "as an implication; independence from the eigenvector column signs is proved separately",
                    "max-pool: pairwise distinct comparators inside every patch (the statement's precondition)",
                    "divisions by norm+eps / var+eps: denominators non-zero"],
}


def cells(tier, seed):
    out = []
    T5 = [(0, 0), (0, 1), (1, 0), (1, 1), (2, 0)]
    for kp in T5:
        out.append({"blk": "maxpool", "D": 2, "N": 4, "patch": 2, "kp": kp, "entry": "geom", "gs": "all"})
        out.append({"blk": "maxpool", "D": 2, "N": 4, "patch": 2, "kp": kp, "entry": "layer", "gs": "all"})
    out.append({"blk": "maxpool", "D": 2, "N": 4, "patch": 2, "kp": (1, 0), "entry": "image", "gs": "all"})
    out.append({"blk": "maxpool", "D": 2, "N": 4, "patch": 2, "kp": (0, 0), "entry": "nonorm", "gs": "all"})
    out.append({"blk": "maxpool", "D": 2, "N": 6, "patch": 3, "kp": (0, 1), "entry": "geom", "gs": "all"})
    out.append({"blk": "maxpool", "D": 3, "N": 2, "patch": 2, "kp": (1, 1), "entry": "geom", "gs": "generators"})
    # non-square / non-cubic images: an axis-exchanging g exchanges the extents, the patch grid must follow
    out.append({"blk": "maxpool", "D": 2, "N": 4, "shape": (4, 2), "patch": 2, "kp": (1, 0), "entry": "geom", "gs": "all"})
    out.append({"blk": "maxpool", "D": 2, "N": 4, "shape": (2, 4), "patch": 2, "kp": (0, 1), "entry": "layer", "gs": "all"})
    out.append({"blk": "maxpool", "D": 2, "N": 4, "shape": (2, 6), "patch": 2, "kp": (0, 0), "entry": "image", "gs": "all"})
    out.append({"blk": "maxpool", "D": 3, "N": 2, "shape": (2, 2, 4), "patch": 2, "kp": (0, 0), "entry": "geom", "gs": "generators"})
    out.append({"blk": "avgpool", "D": 2, "N": 4, "shape": (2, 4), "patch": 2, "kp": (1, 1), "gs": "all"})
    out.append({"blk": "unpool", "D": 2, "N": 2, "shape": (1, 2), "patch": 2, "kp": (1, 0), "gs": "all"})
    out.append({"blk": "avgpool", "D": 3, "N": 2, "shape": (2, 4, 2), "patch": 2, "kp": (1, 0), "gs": "generators"})
    if tier == "thorough":
        out.append({"blk": "maxpool", "D": 3, "N": 4, "patch": 2, "kp": (1, 0), "entry": "geom", "gs": "all"})
        out.append({"blk": "maxpool", "D": 3, "N": 4, "patch": 2, "kp": (0, 1), "entry": "layer", "gs": "all"})
    for kp in T5:
        out.append({"blk": "avgpool", "D": 2, "N": 4, "patch": 2, "kp": kp, "gs": "all"})
        out.append({"blk": "unpool", "D": 2, "N": 2, "patch": 2, "kp": kp, "gs": "all"})
    out.append({"blk": "avgpool", "D": 2, "N": 6, "patch": 3, "kp": (1, 1), "gs": "all"})
    out.append({"blk": "unpool", "D": 2, "N": 2, "patch": 3, "kp": (1, 0), "gs": "all"})
    out.append({"blk": "avgpool", "D": 3, "N": 2, "patch": 2, "kp": (1, 1), "gs": "generators" if tier == "quick" else "all"})
    out.append({"blk": "unpool", "D": 3, "N": 2, "patch": 2, "kp": (1, 0), "gs": "generators" if tier == "quick" else "all"})
    for act in ("relu", "gelu", "tanh"):
        for kp in T5:
            if act != "relu" and kp in ((0, 1), (2, 0)) and tier == "quick":
                continue
            out.append({"blk": "vn", "D": 2, "N": 2, "kp": kp, "act": act, "c": 2, "gs": "all"})
    out.append({"blk": "vn", "D": 3, "N": 2, "kp": (1, 1), "act": "relu", "c": 2, "gs": "generators"})
    out.append({"blk": "vn", "D": 3, "N": 2, "kp": (1, 0), "act": "gelu", "c": 1, "gs": "generators"})
    for kp in [(0, 0), (0, 1)]:
        for c, groups in [(2, 1), (2, 2), (4, 2)]:
            out.append({"blk": "gnorm", "D": 2, "N": 2, "kp": kp, "c": c, "groups": groups, "gs": "all"})
    for kp in [(1, 0), (1, 1)]:
        for c, groups in [(2, 1), (2, 2)] + ([(4, 2)] if tier == "thorough" else []):
            out.append({"blk": "gnorm", "D": 2, "N": 2, "kp": kp, "c": c, "groups": groups, "gs": "all"})
    out.append({"blk": "gnorm", "D": 3, "N": 2, "kp": (0, 1), "c": 2, "groups": 1, "gs": "generators"})
    out.append({"blk": "gnorm", "D": 3, "N": 2, "kp": (1, 0), "c": 1, "groups": 1, "gs": "generators"})
    out.append({"blk": "layernorm", "D": 2, "N": 2, "kp": (1, 0), "c": 2, "groups": 1, "gs": "all"})
    return out


def exhaustive(tier):
    return True


def run_cell(cfg, cx):
    import jax
    import jax.numpy as jnp
    import equinox as eqx
    import ginjax.geometric as geom
    import ginjax.ml as ml
    from jxsmt import sym as S, interp as I, refs, stubs

    D, N, kp = cfg["D"], cfg["N"], tuple(cfg["kp"])
    k, p = kp
    gs = group_elements(D, cfg["gs"])
    blk = cfg["blk"]
    ckey = ":".join(f"{a}={cfg[a]}" for a in sorted(cfg))
    shape = tuple(cfg["shape"]) if cfg.get("shape") else (N,) * D

    if blk in ("maxpool", "avgpool", "unpool"):
        patch = cfg["patch"]
        entry = cfg.get("entry", "geom")
        lead = 1 if entry == "layer" else 0
        X = S.var_array("x", ((2,) if lead else ()) + shape + (D,) * k)
        if blk == "maxpool":
            if entry == "geom":
                f = lambda x: geom.max_pool(D, x, patch)
            elif entry == "nonorm":
                f = lambda x: geom.max_pool(D, x, patch, False)
            elif entry == "image":
                f = lambda x: geom.GeometricImage(x, p, D, True).max_pool(patch).data
            else:
                layer = ml.MaxNormPool(patch)
                f = lambda x: layer(geom.MultiImage({kp: x}, D, True))[kp]
        elif blk == "avgpool":
            f = lambda x: geom.GeometricImage(x, p, D, True).average_pool(patch).data
        else:
            f = lambda x: geom.GeometricImage(x, p, D, True).unpool(patch).data
        _trs = {}

        def tr(x):
            # one trace per input shape: on a non-square image an axis-exchanging g changes the extents
            sh = tuple(x.shape)
            if sh not in _trs:
                _trs[sh] = I.Traced(f, x)
            return _trs[sh](x)
        base = tr(X)
        # the declared type of the pooled / unpooled image is how it transforms: (k, parity, D, flags) are those of the input
        if entry in ("geom", "image") and not (blk == "maxpool" and entry in ("geom", "nonorm")):
            for flags in ((True,) * D, tuple(i % 2 == 0 for i in range(D))):
                im = geom.GeometricImage(jnp.zeros(shape + (D,) * k), p, D, flags)
                om = {"maxpool": lambda: im.max_pool(patch), "avgpool": lambda: im.average_pool(patch), "unpool": lambda: im.unpool(patch)}[blk]()
                cx.structural(f"{blk}: declared type of the result [flags={flags}]", (om.k, om.parity, om.D, tuple(om.is_torus)) == (k, p % 2, D, flags),
                              f"(k, parity, D, is_torus) = {(om.k, om.parity, om.D, tuple(om.is_torus))}, input {(k, p % 2, D, flags)}",
                              key=f"type:{blk}:{ckey}:flags={flags}")
        assum = []
        if blk == "maxpool":
            # the statement's precondition: the per-patch maximum is attained at a unique pixel -> pairwise distinct comparators per patch
            chans = [X.a[c] for c in range(X.shape[0])] if lead else [X.a]
            for xa in chans:
                for corner in itertools.product(*[range(0, (n // patch) * patch, patch) for n in shape]):
                    comps = []
                    for off in itertools.product(range(patch), repeat=D):
                        px = tuple(corner[d] + off[d] for d in range(D))
                        v = np.asarray(xa[px], dtype=object).reshape(-1)
                        if entry == "nonorm":
                            comps.append(v[0])
                        else:
                            comps.append(S.sqrt(sum((q * q for q in v), S.ZERO)))
                    for a, b in itertools.combinations(comps, 2):
                        assum.append(S.bnot(S.eq(a, b)))

        def rp(fun_l, fun_r):
            def replay(vals, bvals):
                x = cx.conc(X, vals)
                return cx.deviates(fun_l(x), fun_r(x))
            return replay
        for g in gs:
            gx = S.Sym(refs.ref_action(D, X.a, p, g, lead=lead))
            lhs = tr(gx)
            rhs = refs.ref_action(D, base.a, p, g, lead=lead)
            cx.equal(f"{blk} equivariant[g={gkey(g)}]", lhs, rhs, assumptions=assum, key=f"eq:{ckey}:g={gkey(g)}",
                     replay=rp(lambda x, g=g: np.asarray(f(jnp.asarray(refs.ref_action(D, x, p, g, lead=lead)))),
                               lambda x, g=g: refs.ref_action(D, np.asarray(f(jnp.asarray(x))), p, g, lead=lead)))
        # shifts by multiples of the patch (pooling: input shift patch -> output shift 1; unpool: input shift 1 -> output shift patch)
        for d in range(D):
            sin, sout = (patch, 1) if blk != "unpool" else (1, patch)
            lhs = tr(S.Sym(np.roll(X.a, sin, axis=lead + d)))
            rhs = np.roll(base.a, sout, axis=lead + d)
            cx.equal(f"{blk} shift[axis={d}]", lhs, rhs, assumptions=assum, key=f"shift:{ckey}:axis={d}",
                     replay=rp(lambda x, d=d, sin=sin: np.asarray(f(jnp.asarray(np.roll(x, sin, axis=lead + d)))),
                               lambda x, d=d, sout=sout: np.roll(np.asarray(f(jnp.asarray(x))), sout, axis=lead + d)))
        # canaries: wrong parity under a reflection; and (max-pool) equivariance WITHOUT the tie-freeness precondition is refutable
        g = [h for h in group_elements(D) if refs.det_signed_perm(h) == -1][0]
        lhs = tr(S.Sym(refs.ref_action(D, X.a, p, g, lead=lead)))
        cx.canary("canary[wrong parity]", lhs, refs.ref_action(D, base.a, p + 1, g, lead=lead), assumptions=assum)
        if assum:
            cx.holds("canary[tie-freeness assumptions contradictory]", S.FALSE, assumptions=assum, canary=True)
        return

    if blk == "vn":
        c = cfg["c"]
        act = {"relu": jax.nn.relu, "gelu": jax.nn.gelu, "tanh": jax.nn.tanh}[cfg["act"]]
        layer = ml.VectorNeuronNonlinear(LC.sig([(kp, c)]), D, act, key=jax.random.PRNGKey(0))
        X = S.var_array("x", (c,) + shape + (D,) * k)
        W = {q: S.var_array(f"w{q[0]}{q[1]}", w.shape) for q, w in layer.weights.items()}

        def f(w, x):
            l2 = eqx.tree_at(lambda l: l.weights, layer, w) if layer.weights else layer
            return l2(geom.MultiImage({kp: x}, D, True))[kp]
        tr = I.Traced(f, W, X)
        base = tr(W, X)
        for g in gs:
            lhs = tr(W, S.Sym(refs.ref_action(D, X.a, p, g, lead=1)))
            rhs = refs.ref_action(D, base.a, p, g, lead=1)

            def replay(vals, bvals, g=g):
                x = cx.conc(X, vals)
                w = {q: jnp.asarray(cx.conc(v, vals)) for q, v in W.items()}
                return cx.deviates(np.asarray(f(w, jnp.asarray(refs.ref_action(D, x, p, g, lead=1)))),
                                   refs.ref_action(D, np.asarray(f(w, jnp.asarray(x))), p, g, lead=1))
            cx.equal(f"vn equivariant[g={gkey(g)}]", lhs, rhs, replay=replay, key=f"eq:{ckey}:g={gkey(g)}")
        g = [h for h in group_elements(D) if refs.det_signed_perm(h) == -1][0]
        lhs = tr(W, S.Sym(refs.ref_action(D, X.a, p, g, lead=1)))

        def replay_c(vals, bvals):
            x = cx.conc(X, vals)
            w = {q: jnp.asarray(cx.conc(v, vals)) for q, v in W.items()}
            return cx.deviates(np.asarray(f(w, jnp.asarray(refs.ref_action(D, x, p, g, lead=1)))),
                               refs.ref_action(D, np.asarray(f(w, jnp.asarray(x))), p + 1, g, lead=1))
        if kp != (0, 0) and cfg["act"] == "relu":
            cx.canary("canary[wrong parity]", lhs, refs.ref_action(D, base.a, p + 1, g, lead=1), replay=replay_c)
        else:
            def replay_d(vals, bvals):
                x = cx.conc(X, vals)
                w = {q: jnp.asarray(cx.conc(v, vals)) for q, v in W.items()}
                return cx.deviates(np.asarray(f(w, jnp.asarray(refs.ref_action(D, x, p, g, lead=1)))),
                                   2 * refs.ref_action(D, np.asarray(f(w, jnp.asarray(x))), p, g, lead=1) + 1)
            cx.canary("canary[doubled]", lhs, refs.ref_action(D, base.a, p, g, lead=1) * 2 + 1, replay=replay_d)
        return

    # ---- GroupNorm / LayerNorm
    c, groups = cfg["c"], cfg["groups"]
    layer = ml.LayerNorm(LC.sig([(kp, c)]), D) if blk == "layernorm" else ml.GroupNorm(LC.sig([(kp, c)]), D, groups)
    X = S.var_array("x", (c,) + shape + (D,) * k)
    params, static = eqx.partition(layer, eqx.is_array)
    leaves, treedef = jax.tree_util.tree_flatten(params)
    P = [S.var_array(f"p{i}", l.shape) for i, l in enumerate(leaves)]

    def f(ps, x):
        l2 = eqx.combine(jax.tree_util.tree_unflatten(treedef, list(ps)), static)
        return l2(geom.MultiImage({kp: x}, D, True))[kp]

    def run(x, signs=None, contract=None):
        stubs.EIGH_SIGNS = signs
        n0 = len(stubs.EIGH_LOG)
        stubs.EIGH_CONTRACT = contract
        stubs.EIGH_CONTRACT_START[0] = n0
        try:
            out = I.sym_call(f, P, x)
        finally:
            stubs.EIGH_SIGNS = None
            stubs.EIGH_CONTRACT = None
        return out, stubs.EIGH_LOG[n0:]
    base, blog = run(X)
    for g in gs:
        lhs, glog = run(S.Sym(refs.ref_action(D, X.a, p, g, lead=1)), contract=(g, blog))
        rhs = refs.ref_action(D, base.a, p, g, lead=1)
        assum = []

        def replay(vals, bvals, g=g):
            # the solver's witness, and the same image at other amplitudes (normalisation output is O(1) at every amplitude, but a
            # defect tied to the stabilising epsilon only shows when the covariance is comparable with it); each is a concrete input
            x0 = cx.conc(X, vals)
            ps = [jnp.asarray(cx.conc(v, vals)) for v in P]
            res = (False, "")
            for amp in (1.0, 0.1, 0.01, 0.001, 10.0):
                x = (x0 * amp).astype(np.float32)
                res = cx.deviates(np.asarray(f(ps, jnp.asarray(refs.ref_action(D, x, p, g, lead=1)))),
                                  refs.ref_action(D, np.asarray(f(ps, jnp.asarray(x))), p, g, lead=1), rtol=5e-3)
                if res[0]:
                    return True, f"{res[1]} (witness image scaled by {amp})"
            return res
        cx.equal(f"{blk} equivariant[g={gkey(g)}]", lhs, rhs, assumptions=assum, replay=replay,
                 key=f"eq:{blk}:D={D}:t={kp}:c={c}:groups={groups}:g={gkey(g)}:det={refs.det_signed_perm(g)}")
    if blog:
        # independence from the arbitrary sign of each eigenvector column
        for signs in itertools.product([1, -1], repeat=D):
            if all(s == 1 for s in signs):
                continue
            alt, _ = run(X, signs)
            cx.equal(f"{blk} eigenvector column signs {signs}", alt, base, key=f"eigsign:{ckey}:{signs}")
        cx.structural("covariance is symmetric as computed", all(b["cov"][i, j].t == b["cov"][j, i].t for b in blog for i in range(D) for j in range(D)),
                      "covariance polynomial matrix is not symmetric")
    g = [h for h in group_elements(D) if refs.det_signed_perm(h) == -1][0]
    lhs, glog = run(S.Sym(refs.ref_action(D, X.a, p, g, lead=1)), contract=(g, blog))
    assum = []
    cx.canary("canary[doubled]", lhs, refs.ref_action(D, base.a, p, g, lead=1) * 2, assumptions=assum,
              replay=lambda vals, bvals: cx.deviates(
                  np.asarray(f([jnp.asarray(cx.conc(v, vals)) for v in P], jnp.asarray(refs.ref_action(D, cx.conc(X, vals), p, g, lead=1)))),
                  2 * refs.ref_action(D, np.asarray(f([jnp.asarray(cx.conc(v, vals)) for v in P], jnp.asarray(cx.conc(X, vals)))), p, g, lead=1)))
