"""Shared set-up for the ConvContract properties (C06, C11) and the network properties."""
from __future__ import annotations

import itertools

import numpy as np

_BANKS = {}


def group_ops(D, G):
    import ginjax.geometric as geom
    from jxsmt import refs
    allops = [np.asarray(g) for g in geom.make_all_operators(D)]
    if G == "B":
        return allops
    if G == "rot":
        return [g for g in allops if refs.det_signed_perm(g) == 1]
    if G == "C2":
        return [np.asarray(g) for g in geom.make_C2_group(D)]
    raise ValueError(G)


def bank(D, M, ks, parities, G="B"):
    """The real invariant filter bank (cached per process)."""
    import ginjax.geometric as geom
    key = (D, M, tuple(ks), tuple(parities), G)
    if key not in _BANKS:
        _BANKS[key] = geom.get_invariant_filters([M], list(ks), list(parities), D, group_ops(D, G))
    return _BANKS[key]


def sig(d):
    import ginjax.geometric as geom
    return geom.Signature(tuple((tuple(kp), c) for kp, c in d))


def sym_input(S, sigd, D, shape, name="x", lead=()):
    """dict (k,p) -> Sym block of shape lead + (c,) + shape + (D,)*k"""
    out = {}
    for (k, p), c in sigd:
        out[(k, p)] = S.var_array(f"{name}{k}{p}", tuple(lead) + (c,) + tuple(shape) + (D,) * k)
    return out


def act_blocks(refs, D, blocks, g, lead=1):
    """Reference action on every block of a dict (k,p) -> array (object or float)."""
    return {kp: refs.ref_action(D, (b.a if hasattr(b, "a") else b), kp[1], g, lead=lead) for kp, b in blocks.items()}


def reachable_targets(in_sig, out_sig, filters):
    res = []
    for (ok, op), oc in out_sig:
        if any(((ik + ok), (ip + op) % 2) in filters for (ik, ip), _ in in_sig):
            res.append(((ok, op), oc))
    return res


def conv_opts_to_ref(D, fshape, is_torus, padding, rdil):
    """(wrap, zero_pad) of the statement for the layer's padding argument."""
    half = [((fshape[d] - 1) // 2) * rdil[d] for d in range(D)]
    pad = padding
    if pad is None:
        pad = "TORUS" if any(is_torus) else "SAME"
    if pad == "TORUS":
        wrap = tuple((half[d], half[d]) if is_torus[d] else (0, 0) for d in range(D))
        zp = tuple((0, 0) if is_torus[d] else (half[d], half[d]) for d in range(D))
    elif pad == "SAME":
        wrap, zp = ((0, 0),) * D, tuple((half[d], half[d]) for d in range(D))
    elif pad == "VALID":
        wrap, zp = ((0, 0),) * D, ((0, 0),) * D
    elif isinstance(pad, int):
        wrap, zp = ((0, 0),) * D, ((pad, pad),) * D
    else:
        wrap, zp = ((0, 0),) * D, tuple(tuple(q) for q in pad)
    return wrap, zp


def ref_conv_contract_layer(refs, S, D, x, W, B, filters, in_sig, out_sig, is_torus, stride, padding, ldil, rdil, bias_mode, zero):
    """Independent evaluation of the layer from the C11 statement.  x: dict (k,p)->array (c,spatial,tensor);
    W: dict in->out->array (out_c,in_c,nf); B: dict out->array (out_c,1..); filters: dict (k,p)->float array (nf,spatial,tensor)."""
    st = stride if isinstance(stride, tuple) else (stride,) * D
    rd = rdil if isinstance(rdil, tuple) else (rdil,) * D
    ld = ldil if ldil is not None else (1,) * D
    out = {}
    for (ok, op), oc in out_sig:
        total = None
        for (ik, ip), ic in in_sig:
            fk = (ik + ok, (ip + op) % 2)
            if fk not in filters:
                continue
            F = filters[fk]
            nf = F.shape[0]
            fshape = F.shape[1:1 + D]
            w = W[(ik, ip)][(ok, op)]
            comb = np.empty((oc, ic) + F.shape[1:], dtype=object)
            for o in range(oc):
                for c in range(ic):
                    for idx in np.ndindex(*F.shape[1:]):
                        acc = zero
                        for f in range(nf):
                            v = F[(f,) + idx]
                            if v != 0:
                                acc = acc + w[o, c, f] * v
                        comb[(o, c) + idx] = acc
            wrap, zp = conv_opts_to_ref(D, fshape, is_torus, padding, rd)
            full = refs.ref_convolve(D, x[(ik, ip)][None], comb, wrap, zp, st, ld, rd, zero)[0]  # (oc, sp, (D,)*ik, (D,)*(ik+ok))
            nsp = 1 + D
            res = np.empty(full.shape[:nsp] + (D,) * ok, dtype=object)
            for idx in np.ndindex(*res.shape):
                acc = zero
                for js in itertools.product(range(D), repeat=ik):
                    acc = acc + full[idx[:nsp] + js + js + idx[nsp:]]
                res[idx] = acc
            total = res if total is None else total + res
        if total is None:
            continue
        mode = bias_mode
        if mode is True:
            mode = "auto"
        if mode:
            b = B.get((ok, op))
            additive = (ok, op) == (0, 0) and mode in ("scalar", "auto")
            meanscaled = ((ok, op) != (0, 0) and mode == "auto") or mode == "mean"
            if additive:
                total = total + np.broadcast_to(b, total.shape)
            elif meanscaled:
                nsp_px = int(np.prod(total.shape[1:1 + D]))
                mean = np.empty((total.shape[0],) + (1,) * D + total.shape[1 + D:], dtype=object)
                for o in range(total.shape[0]):
                    for comp in np.ndindex(*total.shape[1 + D:]):
                        acc = zero
                        for px in np.ndindex(*total.shape[1:1 + D]):
                            acc = acc + total[(o,) + px + comp]
                        mean[(o,) + (0,) * D + comp] = acc * (1 / _frac(nsp_px)) if not isinstance(acc, float) else acc / nsp_px
                total = total + np.broadcast_to(mean, total.shape) * np.broadcast_to(b, total.shape)
        out[(ok, op)] = total
    return out


def _frac(n):
    from fractions import Fraction
    return Fraction(n)


def layer_with(eqx, layer, W, B):
    """Copy of the real layer with its weight / bias leaves replaced (tracers or concrete)."""
    l2 = eqx.tree_at(lambda l: l.weights, layer, W)
    if layer.bias:
        l2 = eqx.tree_at(lambda l: l.bias, l2, B)
    return l2
