"""Shared set-up for the ConvContract properties (C06, C11) and the network properties."""
from __future__ import annotations

import itertools

import numpy as np

_BANKS = {}


def group_ops(D, G):
    import ginjax.geometric as geom
    from jxsmt import refs
    allops = [np.asarray(g) for g in geom.make_all_operators(D)]
    if G == "B":
        return allops
    if G == "rot":
        return [g for g in allops if refs.det_signed_perm(g) == 1]
    if G == "C2":
        return [np.asarray(g) for g in geom.make_C2_group(D)]
    raise ValueError(G)


def bank(D, M, ks, parities, G="B"):
    """The real invariant filter bank (cached per process)."""
    import ginjax.geometric as geom
    key = (D, M, tuple(ks), tuple(parities), G)
    if key not in _BANKS:
        _BANKS[key] = geom.get_invariant_filters([M], list(ks), list(parities), D, group_ops(D, G))
    return _BANKS[key]


def sig(d):
    import ginjax.geometric as geom
    return geom.Signature(tuple((tuple(kp), c) for kp, c in d))


def sym_input(S, sigd, D, shape, name="x", lead=()):
    """dict (k,p) -> Sym block of shape lead + (c,) + shape + (D,)*k"""
    out = {}
    for (k, p), c in sigd:
        out[(k, p)] = S.var_array(f"{name}{k}{p}", tuple(lead) + (c,) + tuple(shape) + (D,) * k)
    return out


def act_blocks(refs, D, blocks, g, lead=1):
    """Reference action on every block of a dict (k,p) -> array (object or float)."""
    return {kp: refs.ref_action(D, (b.a if hasattr(b, "a") else b), kp[1], g, lead=lead) for kp, b in blocks.items()}


def reachable_targets(in_sig, out_sig, filters):
    res = []
    for (ok, op), oc in out_sig:
        if any(((ik + ok), (ip + op) % 2) in filters for (ik, ip), _ in in_sig):
            res.append(((ok, op), oc))
    return res


def conv_opts_to_ref(D, fshape, is_torus, padding, rdil):
    """(wrap, zero_pad) of the statement for the layer's padding argument."""
    half = [((fshape[d] - 1) // 2) * rdil[d] for d in range(D)]
    pad = padding
    if pad is None:
        pad = "TORUS" if any(is_torus) else "SAME"
    if pad == "TORUS":
        wrap = tuple((half[d], half[d]) if is_torus[d] else (0, 0) for d in range(D))
        zp = tuple((0, 0) if is_torus[d] else (half[d], half[d]) for d in range(D))
    elif pad == "SAME":
        wrap, zp = ((0, 0),) * D, tuple((half[d], half[d]) for d in range(D))
    elif pad == "VALID":
        wrap, zp = ((0, 0),) * D, ((0, 0),) * D
    elif isinstance(pad, int):
        wrap, zp = ((0, 0),) * D, ((pad, pad),) * D
    else:
        wrap, zp = ((0, 0),) * D, tuple(tuple(q) for q in pad)
    return wrap, zp


def ref_conv_contract_layer(refs, S, D, x, W, B, filters, in_sig, out_sig, is_torus, stride, padding, ldil, rdil, bias_mode, zero):
    """Independent evaluation of the layer from the C11 statement.  x: dict (k,p)->array (c,spatial,tensor);
    W: dict in->out->array (out_c,in_c,nf); B: dict out->array (out_c,1..); filters: dict (k,p)->float array (nf,spatial,tensor)."""
    st = stride if isinstance(stride, tuple) else (stride,) * D
    rd = rdil if isinstance(rdil, tuple) else (rdil,) * D
    ld = ldil if ldil is not None else (1,) * D
    out = {}
    for (ok, op), oc in out_sig:
        total = None
        for (ik, ip), ic in in_sig:
            fk = (ik + ok, (ip + op) % 2)
            if fk not in filters:
                continue
            F = filters[fk]
            nf = F.shape[0]
            fshape = F.shape[1:1 + D]
            w = W[(ik, ip)][(ok, op)]
            comb = np.empty((oc, ic) + F.shape[1:], dtype=object)
            for o in range(oc):
                for c in range(ic):
                    for idx in np.ndindex(*F.shape[1:]):
                        acc = zero
                        for f in range(nf):
                            v = F[(f,) + idx]
                            if v != 0:
                                acc = acc + w[o, c, f] * v
                        comb[(o, c) + idx] = acc
            wrap, zp = conv_opts_to_ref(D, fshape, is_torus, padding, rd)
            full = refs.ref_convolve(D, x[(ik, ip)][None], comb, wrap, zp, st, ld, rd, zero)[0]  # (oc, sp, (D,)*ik, (D,)*(ik+ok))
            nsp = 1 + D
            res = np.empty(full.shape[:nsp] + (D,) * ok, dtype=object)
            for idx in np.ndindex(*res.shape):
                acc = zero
                for js in itertools.product(range(D), repeat=ik):
                    acc = acc + full[idx[:nsp] + js + js + idx[nsp:]]
                res[idx] = acc
            total = res if total is None else total + res
        if total is None:
            continue
        mode = bias_mode
        if mode is True:
            mode = "auto"
        if mode:
            b = B.get((ok, op))
            additive = (ok, op) == (0, 0) and mode in ("scalar", "auto")
            meanscaled = ((ok, op) != (0, 0) and mode == "auto") or mode == "mean"
            if additive:
                total = total + np.broadcast_to(b, total.shape)
            elif meanscaled:
                nsp_px = int(np.prod(total.shape[1:1 + D]))
                mean = np.empty((total.shape[0],) + (1,) * D + total.shape[1 + D:], dtype=object)
                for o in range(total.shape[0]):
                    for comp in np.ndindex(*total.shape[1 + D:]):
                        acc = zero
                        for px in np.ndindex(*total.shape[1:1 + D]):
                            acc = acc + total[(o,) + px + comp]
                        mean[(o,) + (0,) * D + comp] = acc * (1 / _frac(nsp_px)) if not isinstance(acc, float) else acc / nsp_px
                total = total + np.broadcast_to(mean, total.shape) * np.broadcast_to(b, total.shape)
        out[(ok, op)] = total
    return out


def _frac(n):
    from fractions import Fraction
    return Fraction(n)


def layer_with(eqx, layer, W, B):
    """Copy of the real layer with its weight / bias leaves replaced (tracers or concrete)."""
    l2 = eqx.tree_at(lambda l: l.weights, layer, W)
    if layer.bias:
        l2 = eqx.tree_at(lambda l: l.bias, l2, B)
    return l2


# ------------------------------------------------------------------ whole models with symbolic parameters
def enable_network_mode():
    """Abstractions used for network-level obligations (each is part of the claim, see DESIGN.md 2.5):
    let-abstraction of large polynomials, order-independent max-pool selection (assumes the unique-maximiser
    precondition proved sufficient in C08), abstract float constants (eps, activation constants, filter magnitudes)."""
    from jxsmt import sym as S, interp as I
    I.DEF_THRESHOLD = 4
    I.CANON_ARGMAX = True
    S.ABSTRACT_FLOATS = True


def symbolic_model(model, S, prefix="p", symbolic_filters=False):
    """-> (P, f, info): P = list of leaves (Sym for parameters, abstracted constants for the filter bank), f(P, xdict, in_sig) -> dict."""
    import jax
    import equinox as eqx
    import ginjax.geometric as geom
    params, static = eqx.partition(model, eqx.is_array)
    flat = jax.tree_util.tree_flatten_with_path(params)[0]
    leaves, treedef = jax.tree_util.tree_flatten(params)
    paths = [jax.tree_util.keystr(p) for p, _ in flat]
    P, kinds = [], []
    for i, (l, pth) in enumerate(zip(leaves, paths)):
        if "invariant_filters" in pth:
            P.append(S.var_array(f"F{i}", l.shape) if symbolic_filters else S.abstract_constants(l))
            kinds.append("filter")
        else:
            P.append(S.var_array(f"{prefix}{i}", l.shape))
            kinds.append("param")

    def f(ps, xb, order, D, is_torus):
        mm = eqx.combine(jax.tree_util.tree_unflatten(treedef, list(ps)), static)
        out = mm(geom.MultiImage({kp: xb[kp] for kp in order}, D, is_torus))
        if isinstance(out, tuple):
            out = out[0]
        return out
    return P, f, {"paths": paths, "kinds": kinds, "leaves": leaves, "treedef": treedef, "static": static}


def concrete_params(cx, P, info, vals):
    """Concrete leaves for a replay: parameters from the witness, the filter bank as it really is."""
    import jax.numpy as jnp
    out = []
    for p, kind, leaf in zip(P, info["kinds"], info["leaves"]):
        out.append(leaf if kind == "filter" else jnp.asarray(cx.conc(p, vals)))
    return out


def run_with_contract(I, stubs, tr, args, contract=None):
    """Execute a Traced function with the eigh stub's contract (g, base log) active; returns (out, eigh log of this run)."""
    n0 = len(stubs.EIGH_LOG)
    stubs.EIGH_CONTRACT = contract
    stubs.EIGH_CONTRACT_START[0] = n0
    try:
        out = tr(*args)
    finally:
        stubs.EIGH_CONTRACT = None
    return out, stubs.EIGH_LOG[n0:]
