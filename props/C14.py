"""C14 — no cross-talk between batch entries, channels or tensor types."""
from __future__ import annotations

import itertools

import numpy as np

from props.common import group_elements, gkey
from props import layers_common as LC

INFO = {
    "explanation": "Every per-image MultiImage operation (group action, pixel norm, average pooling, component selection, conversion to single "
                   "images) is executed symbolically on blocks with 0-3 leading axes of pairwise distinct sizes and z3 decides that the entry "
                   "for batch index b and channel c equals the single-image operation (the GeometricImage method, executed separately) on "
                   "that image.  Layers and tiny models under jax.vmap are compared entry by entry with the un-batched call on fixed seeded "
                   "parameters, and independence is asked directly: out(X)[b] = out(X with the other entries replaced by fresh variables)[b].",
    "functions": ["MultiImage.times_group_element", "MultiImage.norm", "MultiImage.average_pool", "MultiImage.get_component",
                  "MultiImage.batch_get_component", "MultiImage.to_images", "jax.vmap(ml.ConvContract)", "jax.vmap(ml.VectorNeuronNonlinear)",
                  "jax.vmap(ml.MaxNormPool)", "jax.vmap(ml.GroupNorm) [scalar path]", "jax.vmap(models.ConvBlock)", "jax.vmap(models.ResNet)"],
    "bounds": {
        "quick": "d in {1,2,3}, shapes (4,),(2,4),(2,2,2) [(2,3,4) for the action]; leading layouts (), (c), (b,c), (a,b,c) with sizes 3,2,c; 2 types; "
                 "layers: d=2 N=4 batch 2",
        "thorough": "adds 4 generators x all layouts in d=3, patch 2 and 3, batch 3",
    },
    "outside": ["float32", "the vector path of GroupNorm under vmap (eigh stub) is covered by C08 per sample"],
    "assumptions": ["max-pool obligations assume no norm ties inside a patch"],
}

SIGS = {1: [((0, 0), 2), ((0, 1), 1)], 2: [((0, 0), 2), ((1, 0), 1), ((1, 1), 2)], 3: [((0, 1), 1), ((1, 0), 2)]}


def cells(tier, seed):
    out = []
    for D, shape in [(1, (4,)), (2, (2, 4)), (3, (2, 2, 2)), (3, (2, 3, 4))]:
        for lead in [None, (), (3,), (5, 3)]:
            if shape == (2, 3, 4) and lead not in (None, (3,)):
                continue
            out.append({"kind": "ops", "D": D, "shape": shape, "lead": lead})
            if shape != (2, 3, 4) and lead in ((), (3,)):
                out.append({"kind": "ops", "D": D, "shape": shape, "lead": lead, "rev": True})  # types stored in non-sorted order
    for layer in ["conv", "vn", "maxpool", "gnorm_scalar", "convblock", "resnet"]:
        out.append({"kind": "vmap", "layer": layer, "D": 2, "batch": 2 if tier == "quick" else 3})
    # losses: one sample can never influence another's loss
    for order in ([0, 1], [1, 0]):
        for steps in (1, 2):
            out.append({"kind": "loss", "D": 2, "batch": 3, "order": order, "steps": steps})
    if tier == "thorough":
        out.append({"kind": "loss", "D": 3, "batch": 2, "order": [1, 0], "steps": 2})
    return out


def exhaustive(tier):
    return True


def run_cell(cfg, cx):
    if cfg["kind"] == "ops":
        _ops(cfg, cx)
    elif cfg["kind"] == "loss":
        _loss(cfg, cx)
    else:
        _vmap(cfg, cx)


def _loss(cfg, cx):
    """Per-entry losses equal the loss of that entry evaluated alone (a batch of one), and the batch-reduced losses are the mean
    of those: entry j never enters the loss of entry i."""
    import jax.numpy as jnp
    import ginjax.geometric as geom
    import ginjax.ml as ml
    from fractions import Fraction
    from jxsmt import sym as S, interp as I
    D, B, steps = cfg["D"], cfg["batch"], cfg["steps"]
    N = 2
    types = [((0, 0), 2 * steps), ((1, 0), steps)]
    types = [types[i] for i in cfg["order"]]
    X = {kp: S.var_array(f"x{kp[0]}{kp[1]}", (B, c) + (N,) * D + (D,) * kp[0]) for kp, c in types}
    Y = {kp: S.var_array(f"y{kp[0]}{kp[1]}", (B, c) + (N,) * D + (D,) * kp[0]) for kp, c in types}
    mk = lambda bl: geom.MultiImage({kp: bl[kp] for kp, _ in types}, D, True)
    one = lambda bl, i: geom.MultiImage({kp: bl[kp][i:i + 1] for kp, _ in types}, D, True)
    ckey = f"D={D}:batch={B}:order={cfg['order']}:steps={steps}"
    fns = {
        "smse_loss(reduce=None)": (lambda x, y: ml.smse_loss(mk(x), mk(y), reduce=None), lambda x, y, i: ml.smse_loss(one(x, i), one(y, i), reduce=None)[0], "entry"),
        "timestep_smse_loss(reduce=None)": (lambda x, y: ml.timestep_smse_loss(mk(x), mk(y), steps, reduce=None),
                                            lambda x, y, i: ml.timestep_smse_loss(one(x, i), one(y, i), steps, reduce=None)[0], "entry"),
        "smse_loss(mean)": (lambda x, y: ml.smse_loss(mk(x), mk(y)), lambda x, y, i: ml.smse_loss(one(x, i), one(y, i)), "mean"),
        "timestep_smse_loss(mean)": (lambda x, y: ml.timestep_smse_loss(mk(x), mk(y), steps), lambda x, y, i: ml.timestep_smse_loss(one(x, i), one(y, i), steps), "mean"),
        "normalized_smse_loss": (lambda x, y: ml.normalized_smse_loss(mk(x), mk(y)), lambda x, y, i: ml.normalized_smse_loss(one(x, i), one(y, i)), "mean"),
    }
    for nm, (full, single, how) in fns.items():
        got = I.sym_call(full, X, Y)
        singles = [I.sym_call(lambda x, y, i=i: single(x, y, i), X, Y) for i in range(B)]
        flat = lambda s_: np.asarray(s_.a, dtype=object).reshape(-1)
        if how == "entry":
            ref = np.stack([flat(s_) for s_ in singles], axis=0)
            got = np.asarray(got.a, dtype=object).reshape(B, -1)
        else:
            ref = flat(singles[0])
            for s_ in singles[1:]:
                ref = ref + flat(s_)
            ref = ref * Fraction(1, B)
            got = flat(got)
        def replay(vals, bvals, full=full, single=single, how=how):
            x = {kp: jnp.asarray(cx.conc(v, vals)) for kp, v in X.items()}
            y = {kp: jnp.asarray(cx.conc(v, vals)) for kp, v in Y.items()}
            g = np.asarray(full(x, y))
            ss = [np.asarray(single(x, y, i)).reshape(-1) for i in range(B)]
            r = np.stack(ss, axis=0) if how == "entry" else sum(ss) / B
            return cx.deviates(g.reshape(r.shape), r)
        cx.equal(f"{nm}: entry i = loss of entry i alone" if how == "entry" else f"{nm} = mean of the single-entry losses", got, ref,
                 replay=replay, key=f"loss:{nm}:{ckey}")
    # reduce="max": the per-step losses of ONE entry (the one with the largest total), never a mixture of several entries
    if steps > 1:
        # per-step losses become let-abstracted atoms (shared by the batched and the single-entry runs, which compute the same
        # polynomials), so that the selection by largest total is a linear query
        old_thr, I.DEF_THRESHOLD = I.DEF_THRESHOLD, 4
        rows = [np.asarray(I.sym_call(lambda x, y, i=i: ml.timestep_smse_loss(one(x, i), one(y, i), steps, reduce=None)[0], X, Y).a, dtype=object).reshape(-1)
                for i in range(B)]
        tot = [sum(list(r), S.ZERO) for r in rows]
        gmax = np.asarray(I.sym_call(lambda x, y: ml.timestep_smse_loss(mk(x), mk(y), steps, reduce="max"), X, Y).a, dtype=object).reshape(-1)
        I.DEF_THRESHOLD = old_thr
        for i in range(B):
            assum = [S.lt(tot[j], tot[i]) for j in range(B) if j != i]

            def replay_max(vals, bvals, i=i):
                x = {kp: jnp.asarray(cx.conc(v, vals)) for kp, v in X.items()}
                y = {kp: jnp.asarray(cx.conc(v, vals)) for kp, v in Y.items()}
                per = np.asarray(ml.timestep_smse_loss(mk(x), mk(y), steps, reduce=None))
                w = int(np.argmax(per.sum(axis=1)))
                return cx.deviates(np.asarray(ml.timestep_smse_loss(mk(x), mk(y), steps, reduce="max")),
                                   np.asarray(ml.timestep_smse_loss(one(x, w), one(y, w), steps, reduce=None))[0])
            cx.equal(f"timestep_smse_loss(max): the losses of entry {i} alone when its total is the largest", gmax, rows[i], assumptions=assum,
                     replay=replay_max, key=f"loss:max:{i}:{ckey}")
    got = I.sym_call(fns["smse_loss(reduce=None)"][0], X, Y)
    cx.canary("canary[per-entry losses reversed]", got, np.asarray(got.a, dtype=object)[::-1].copy())


def _ops(cfg, cx):
    import jax
    import jax.numpy as jnp
    import ginjax.geometric as geom
    from jxsmt import sym as S, interp as I, refs

    D, shape, lead = cfg["D"], tuple(cfg["shape"]), cfg["lead"]
    sg = SIGS[D][::-1] if cfg.get("rev") else SIGS[D]
    flags = (True,) * D
    if lead is None:
        n_lead = 0
        blocks = {kp: S.var_array(f"x{kp[0]}{kp[1]}", shape + (D,) * kp[0]) for kp, c in sg}
    else:
        lead = tuple(lead)
        n_lead = len(lead) + 1
        blocks = {kp: S.var_array(f"x{kp[0]}{kp[1]}", lead + (c,) + shape + (D,) * kp[0]) for kp, c in sg}
    ckey = f"D={D}:shape={shape}:lead={cfg['lead']}" + (":rev" if cfg.get("rev") else "")
    mk = lambda bl: geom.MultiImage({kp: bl[kp] for kp, _ in sg}, D, flags)
    lead_idx = lambda kp: list(np.ndindex(*blocks[kp].shape[:n_lead]))

    # --- group action
    gs = group_elements(D, "generators") if D > 1 else [np.array([[-1]])]
    for g in gs:
        out = I.sym_call(lambda bl: dict(mk(bl).times_group_element(g).data), blocks)
        for kp, c in sg:
            single = I.Traced(lambda x, kp=kp: geom.GeometricImage(x, kp[1], D, flags).times_group_element(g).data,
                              S.Sym(blocks[kp].a[lead_idx(kp)[0]]))
            for ix in lead_idx(kp):
                exp = single(S.Sym(blocks[kp].a[ix]))
                cx.equal(f"action[{kp},{ix},g={gkey(g)}]", S.Sym(out[kp].a[ix]) if out[kp].a[ix].shape == exp.shape else out[kp], exp,
                         key=f"action:{ckey}:t={kp}:g={gkey(g)}",
                         replay=lambda vals, bvals, g=g, kp=kp, ix=ix: cx.deviates(
                             np.asarray(mk({q: jnp.asarray(cx.conc(v, vals)) for q, v in blocks.items()}).times_group_element(g)[kp])[ix],
                             np.asarray(geom.GeometricImage(jnp.asarray(cx.conc(blocks[kp], vals)[ix]), kp[1], D, flags).times_group_element(g).data)))
    # --- norm (needs a channel axis): channels of all types concatenated on the channel axis in type order
    if n_lead >= 1:
        out = I.sym_call(lambda bl: dict(mk(bl).norm().data), blocks)
        cx.structural("norm keys", list(out.keys()) == [(0, 0)], f"{list(out.keys())}", key=f"norm-keys:{ckey}")
        off = 0
        for kp, c in sg:
            single = I.Traced(lambda x, kp=kp: geom.GeometricImage(x, kp[1], D, flags).norm().data, S.Sym(blocks[kp].a[lead_idx(kp)[0]]))
            for ix in lead_idx(kp):
                exp = single(S.Sym(blocks[kp].a[ix]))
                oix = ix[:-1] + (off + ix[-1],)
                cx.equal(f"norm[{kp},{ix}]", S.Sym(out[(0, 0)].a[oix]), exp, key=f"norm:{ckey}:t={kp}",
                         replay=lambda vals, bvals, kp=kp, ix=ix, oix=oix: cx.deviates(
                             np.asarray(mk({q: jnp.asarray(cx.conc(v, vals)) for q, v in blocks.items()}).norm()[(0, 0)])[oix],
                             np.asarray(geom.GeometricImage(jnp.asarray(cx.conc(blocks[kp], vals)[ix]), kp[1], D, flags).norm().data)))
            off += c
    # --- average pooling
    if D >= 2 and all(n % 2 == 0 for n in shape):
        out = I.sym_call(lambda bl: dict(mk(bl).average_pool(2).data), blocks)
        for kp, c in sg:
            single = I.Traced(lambda x, kp=kp: geom.GeometricImage(x, kp[1], D, flags).average_pool(2).data, S.Sym(blocks[kp].a[lead_idx(kp)[0]]))
            for ix in lead_idx(kp):
                exp = single(S.Sym(blocks[kp].a[ix]))
                cx.equal(f"average_pool[{kp},{ix}]", S.Sym(out[kp].a[ix]), exp, key=f"avgpool:{ckey}:t={kp}",
                         replay=lambda vals, bvals, kp=kp, ix=ix: cx.deviates(
                             np.asarray(mk({q: jnp.asarray(cx.conc(v, vals)) for q, v in blocks.items()}).average_pool(2)[kp])[ix],
                             np.asarray(geom.GeometricImage(jnp.asarray(cx.conc(blocks[kp], vals)[ix]), kp[1], D, flags).average_pool(2).data)))
    # --- to_images (any leading layout: flattened in order, per type in order)
    if n_lead >= 0:
        meta = {}

        def ti(bl):
            ims = mk(bl).to_images()
            meta["m"] = [(im.k, im.parity, im.D) for im in ims]
            return [im.data for im in ims]
        outs = I.sym_call(ti, blocks)
        exp, expm = [], []
        for kp, c in sg:
            for ix in lead_idx(kp):
                exp.append(blocks[kp].a[ix])
                expm.append((kp[0], kp[1], D))
        cx.structural("to_images metadata", meta["m"] == expm, f"{meta['m']} vs {expm}", key=f"to_images-meta:{ckey}")
        if len(outs) == len(exp):
            for i, (a, b) in enumerate(zip(outs, exp)):
                cx.equal(f"to_images[{i}]", a, b, key=f"to_images:{ckey}")
    # --- get_component / batch_get_component (channel axis only / batch + channel)
    if n_lead in (1, 2) and D == 2:
        for fs in (1, 2):
            if any(c % fs for _, c in sg):
                continue
            ncomp = sum((c // fs) * D ** kp[0] for kp, c in sg)
            for comp in list(range(ncomp)) + [slice(1, 3), slice(max(ncomp - 3, 0), ncomp - 1), slice(0, ncomp)]:
                def gc(bl, comp=comp, fs=fs):
                    m = mk(bl)
                    return (m.get_component(comp, fs) if n_lead == 1 else m.batch_get_component(comp, fs))[(0, 0)]
                out = I.sym_call(gc, blocks)
                # specification from the docstring
                def spec(bl):
                    cols = []
                    for kp, c in sg:
                        k = kp[0]
                        b = bl[kp]  # (c, spatial, tensor)
                        e = b.reshape((c // fs, fs) + shape + (D ** k,))
                        for ch in range(c // fs):
                            for i in range(D ** k):
                                cols.append(e[ch, :, ..., i])  # (fs, spatial)
                    sel = cols[comp] if isinstance(comp, slice) else [cols[comp]]
                    return np.stack([s[t] for s in sel for t in range(fs)], axis=0)
                if n_lead == 1:
                    exp = spec({kp: v.a for kp, v in blocks.items()})
                else:
                    exp = np.stack([spec({kp: v.a[b] for kp, v in blocks.items()}) for b in range(blocks[sg[0][0]].shape[0])], axis=0)
                cx.equal(f"get_component[{comp},fs={fs}]", out, exp, key=f"get_component:{ckey}:comp={comp}:fs={fs}",
                         replay=lambda vals, bvals, gc=gc, exp=exp: cx.deviates(
                             np.asarray(gc({q: jnp.asarray(cx.conc(v, vals)) for q, v in blocks.items()})), cx.expected(exp, vals), rtol=1e-6))
    # canary
    kp0 = sg[0][0]
    out = I.sym_call(lambda bl: dict(mk(bl).times_group_element(gs[0]).data), blocks)
    if n_lead >= 1 and blocks[kp0].shape[n_lead - 1] > 1:
        rolled = np.roll(refs.ref_action(D, blocks[kp0].a, kp0[1], gs[0], lead=n_lead), 1, axis=n_lead - 1)
        cx.canary("canary[channels rolled]", out[kp0], rolled)


def _vmap(cfg, cx):
    import jax
    import jax.numpy as jnp
    import equinox as eqx
    import ginjax.geometric as geom
    import ginjax.ml as ml
    import ginjax.models as models
    from jxsmt import sym as S, interp as I

    D, N, B = 2, 4, cfg["batch"]
    key = jax.random.PRNGKey(3)
    sg = [((0, 0), 2), ((1, 0), 2)]
    bank = LC.bank(D, 3, [0, 1, 2], [0, 1], "B")
    name = cfg["layer"]
    assumptions = []
    if name == "conv":
        layer = ml.ConvContract(LC.sig(sg), LC.sig([((0, 0), 1), ((1, 0), 1)]), bank, "auto", key=key)
        f = lambda m: layer(m)
    elif name == "vn":
        layer = ml.VectorNeuronNonlinear(LC.sig(sg), D, jax.nn.relu, key=key)
        f = lambda m: layer(m)
    elif name == "maxpool":
        layer = ml.MaxNormPool(2)
        f = lambda m: layer(m)
    elif name == "gnorm_scalar":
        sg = [((0, 0), 2), ((0, 1), 2)]
        layer = ml.GroupNorm(LC.sig(sg), D, 2)
        f = lambda m: layer(m)
    elif name == "convblock":
        layer = models.ConvBlock(D, LC.sig(sg), LC.sig(sg), "auto", "relu", True, bank, key=key)
        f = lambda m: layer(m)[0]
    else:
        layer = models.ResNet(D, LC.sig(sg), LC.sig([((1, 0), 1)]), depth=1, num_blocks=1, num_conv=1, equivariant=True, conv_filters=bank,
                              use_group_norm=False, activation_f=None, key=key)
        f = lambda m: layer(m)[0]
    if name in ("convblock", "resnet"):
        I.DEF_THRESHOLD = 6  # let-abstraction of large intermediate polynomials (sym.define)
    xb = {kp: S.var_array(f"x{kp[0]}{kp[1]}", (B, c, N, N) + (D,) * kp[0]) for kp, c in sg}
    mk = lambda bl: geom.MultiImage(dict(bl), D, True)
    batched = I.sym_call(lambda bl: dict(jax.vmap(f)(mk(bl)).data), xb)
    single = I.Traced(lambda bl: dict(f(mk(bl)).data), {kp: S.Sym(v.a[0]) for kp, v in xb.items()})
    if name == "maxpool":
        # tie-freeness of the comparator inside every patch is the statement's precondition; without it the first-index
        # tie-breaking is still the same computation per sample, so no assumption is needed for batch independence
        pass
    for b in range(B):
        one = single({kp: S.Sym(v.a[b]) for kp, v in xb.items()})
        for kp in batched:
            def replay(vals, bvals, b=b, kp=kp):
                bl = {q: jnp.asarray(cx.conc(v, vals)) for q, v in xb.items()}
                full = jax.vmap(f)(mk(bl))[kp][b]
                alone = f(mk({q: v[b] for q, v in bl.items()}))[kp]
                return cx.deviates(np.asarray(full), np.asarray(alone))
            cx.equal(f"vmap({name})[b={b},{kp}]", S.Sym(batched[kp].a[b]), one[kp], replay=replay, key=f"vmap:{name}:b={b}:t={kp}")
    # independence asked directly: replace the other entries by fresh variables
    fresh = {kp: S.var_array(f"y{kp[0]}{kp[1]}", v.shape) for kp, v in xb.items()}
    mixed = {}
    for kp, v in xb.items():
        a = fresh[kp].a.copy()
        a[0] = v.a[0]
        mixed[kp] = S.Sym(a)
    other = I.sym_call(lambda bl: dict(jax.vmap(f)(mk(bl)).data), mixed)
    for kp in batched:
        cx.equal(f"independence({name})[{kp}]", S.Sym(other[kp].a[0]), S.Sym(batched[kp].a[0]), key=f"indep:{name}:t={kp}")
        if kp == list(batched)[0]:
            def replay_c(vals, bvals, kp=kp):
                bl = {q: jnp.asarray(cx.conc(v, vals)) for q, v in xb.items()}
                mx = {q: jnp.asarray(cx.conc(v, vals)) for q, v in mixed.items()}
                return cx.deviates(np.asarray(jax.vmap(f)(mk(mx))[kp][1]), np.asarray(jax.vmap(f)(mk(bl))[kp][1]))
            cx.canary(f"canary[{name}: entry 1 unaffected by replacing it]", S.Sym(other[kp].a[1]), S.Sym(batched[kp].a[1]), replay=replay_c)
