"""C04 — convolution computes its mathematical definition in every mode."""
from __future__ import annotations

import itertools
import random

import numpy as np

from props.common import pairwise_cover

INFO = {
    "explanation": "geom.convolve / convolve_contract / GeometricImage.convolve_with are traced and executed symbolically with every "
                   "image-batch and filter-bank entry a z3 Real and compared (QF_NRA) with a harness-side direct sum written from the "
                   "statement: P = wrap (toroidal axes, TORUS mode) -> zero-interleave -> zero-pad; "
                   "out[b,o,i] = sum_c sum_a P[b,c,i*s+a*delta] (x) F[o,c,a], image indices first; fused contraction = contraction "
                   "of image index i with filter index i.  Bilinearity is read off the output polynomials (degree (1,1)).",
    "functions": ["geom.convolve", "geom.convolve_ravel", "geom.convolve_contract", "geom.conv_contract_image_expand",
                  "geom.pre_tensor_product_expand", "geom.get_torus_expanded", "geom.get_same_padding", "GeometricImage.convolve_with",
                  "lax.conv_general_dilated (native rule, cross-validated per use)"],
    "bounds": {
        "quick": "d=2 shapes (4,4),(3,5),(5,2); d=3 shapes (3,3,3),(2,3,4) [(2,2,3)]; batch<=2; in/out channels<=2 (unequal); k+k'<=3 (d=2), <=2 (d=3); "
                 "padding kinds TORUS/None/SAME/VALID/int (0, 1, 2)/explicit(asymmetric, all-zero); torus flag vectors incl. mixed; stride 1,2,(1,2); "
                 "rhs_dilation 1,2 (+ 8 cells whose TORUS halo exceeds the image side: dilations 3..7 on sides 2..4); lhs_dilation off/2; filter sides 3,2,1,(3,1),(2,3): pairwise-covering core + seeded sample (~90 cells)",
        "thorough": "same axes, core + 1200 seeded cells; all 2^d torus-flag vectors",
    },
    "outside": ["float32 rounding / precision flags", "shapes beyond the bound"],
    "assumptions": ["wrap-around happens only in TORUS mode (padding None with a toroidal axis, or 'TORUS'); literal/SAME/VALID paddings "
                    "zero-pad also on toroidal axes, as documented"],
}

PADS = ["none", "TORUS", "SAME", "VALID", "int", "explicit", "int0", "int2", "explicit0"]


def _mk_cells(D, tier, seed):
    if D == 2:
        shapes = [(4, 4), (3, 5), (5, 2)]
        fshapes = [(3, 3), (2, 2), (1, 1), (3, 1), (2, 3)]
        toruses = [(True, True), (False, False), (True, False), (False, True)]
        kk = [(0, 0), (1, 0), (0, 1), (1, 1), (2, 0), (0, 2), (2, 1), (1, 2)]
        strides = [(1, 1), (2, 2), (1, 2)]
        rdils = [(1, 1), (2, 2), (2, 1)]
        ldils = [None, (2, 2), (1, 2)]
    else:
        shapes = [(3, 3, 3), (2, 3, 4), (2, 2, 3)]
        fshapes = [(3, 3, 3), (2, 2, 2), (3, 1, 3), (1, 1, 1)]
        toruses = [(True, True, True), (False, False, False), (True, False, True), (False, True, False)]
        if tier == "thorough":
            toruses = list(itertools.product([True, False], repeat=3))
        kk = [(0, 0), (1, 0), (0, 1), (1, 1), (2, 0), (0, 2)]
        strides = [(1, 1, 1), (2, 2, 2), (1, 2, 1)]
        rdils = [(1, 1, 1), (2, 1, 2)]
        ldils = [None, (2, 2, 2)]
    axes = {"shape": shapes, "fshape": fshapes, "torus": toruses, "kk": kk, "stride": strides, "rdil": rdils, "ldil": ldils,
            "pad": PADS, "chan": [(1, 1, 1), (2, 1, 2), (1, 2, 1), (2, 2, 1)], "fn": ["convolve", "contract", "object"]}
    return axes


def _valid(c):
    D = c["D"]
    even = any(m % 2 == 0 for m in c["fshape"])
    if even and c["pad"] in ("none", "TORUS", "SAME"):
        return False
    k, kp = c["kk"]
    if c["fn"] == "contract" and kp < k:
        return False
    if c["fn"] == "object" and c["chan"] != (1, 1, 1):
        return False
    if c["fn"] == "object" and len(set(c["torus"])) > 1 and False:
        return False
    # non-empty output
    for d in range(D):
        n = c["shape"][d]
        eff = (c["fshape"][d] - 1) * c["rdil"][d] + 1
        if c["ldil"] is not None:
            n = (n - 1) * c["ldil"][d] + 1
        lo, hi = _zero_wrap(c)[1][d]
        w = _zero_wrap(c)[0][d]
        if c["ldil"] is not None and (w[0] or w[1]):
            n = (c["shape"][d] + w[0] + w[1] - 1) * c["ldil"][d] + 1
        else:
            n = n + w[0] + w[1]
        if n + lo + hi < eff:
            return False
    if D == 3 and sum(c["kk"]) + (c["kk"][0] if c["fn"] == "contract" else 0) > 2:
        return False
    return True


def _padding_arg(c):
    D = c["D"]
    pad = c["pad"]
    if pad == "none":
        return None
    if pad in ("TORUS", "SAME", "VALID"):
        return pad
    if pad == "int":
        return 1
    if pad in ("int0", "int2"):          # integer paddings incl. the falsy 0 (= no padding at all)
        return int(pad[3:])
    if pad == "explicit0":
        return ((0, 0),) * D
    return tuple((1 + (d % 2), d % 2 + (1 if d == 0 else 2)) for d in range(D))  # asymmetric literal padding


def _zero_wrap(c):
    """(wrap, zero_pad) per axis as the statement prescribes for this option set."""
    D = c["D"]
    pad = c["pad"]
    torus = c["torus"]
    f, rd = c["fshape"], c["rdil"]
    if pad == "none":
        pad = "TORUS" if any(torus) else "SAME"
    half = [((f[d] - 1) // 2) * rd[d] for d in range(D)]
    if pad == "TORUS":
        wrap = tuple((half[d], half[d]) if torus[d] else (0, 0) for d in range(D))
        zp = tuple((0, 0) if torus[d] else (half[d], half[d]) for d in range(D))
    elif pad == "SAME":
        wrap = ((0, 0),) * D
        zp = tuple((half[d], half[d]) for d in range(D))
    elif pad == "VALID":
        wrap = ((0, 0),) * D
        zp = ((0, 0),) * D
    elif pad == "int":
        wrap = ((0, 0),) * D
        zp = ((1, 1),) * D
    elif pad in ("int0", "int2"):
        wrap = ((0, 0),) * D
        zp = ((int(pad[3:]),) * 2,) * D
    elif pad == "explicit0":
        wrap = ((0, 0),) * D
        zp = ((0, 0),) * D
    else:
        wrap = ((0, 0),) * D
        zp = _padding_arg(c)
    return wrap, zp


def _big_halo_cells():
    """TORUS wrap with a halo larger than the image side (several periods): ((M-1)//2)*rhs_dilation > N on a toroidal axis."""
    def mk(D, shape, fshape, torus, kk, rdil, pad, fn="convolve", chan=(1, 1, 1), stride=None):
        return {"D": D, "shape": shape, "fshape": fshape, "torus": torus, "kk": kk, "stride": stride or (1,) * D, "rdil": rdil, "ldil": None,
                "pad": pad, "chan": chan, "fn": fn}
    return [
        mk(2, (3, 4), (3, 3), (True, True), (0, 0), (4, 1), "TORUS"),
        mk(2, (4, 4), (3, 3), (True, True), (0, 1), (4, 4), "TORUS"),            # halo == N exactly
        mk(2, (2, 5), (5, 3), (True, False), (1, 0), (2, 1), "none"),            # halo 4 = 2N
        mk(2, (3, 5), (3, 3), (True, False), (0, 0), (5, 2), "TORUS", fn="object"),
        mk(2, (2, 3), (3, 3), (True, True), (0, 0), (5, 1), "none", chan=(2, 1, 2)),  # halo 2N+1
        mk(2, (3, 3), (3, 3), (False, True), (1, 1), (1, 7), "TORUS", fn="contract", stride=(1, 2)),
        mk(3, (2, 2, 3), (3, 3, 3), (True, True, True), (0, 0), (3, 1, 1), "TORUS"),
        mk(3, (2, 3, 2), (3, 1, 3), (True, False, True), (0, 1), (1, 1, 5), "none"),
    ]


def cells(tier, seed):
    out = [c for c in _big_halo_cells() if _valid(c)]
    for D in (2, 3):
        axes = _mk_cells(D, tier, seed)
        core = pairwise_cover(axes, seed=11 + D)
        rng = random.Random(seed * 7919 + D)
        names = list(axes)
        n_extra = (25 if D == 2 else 10) if tier == "quick" else (900 if D == 2 else 300)
        extra = [dict(zip(names, [rng.choice(axes[n]) for n in names])) for _ in range(n_extra * 6)]
        got = []
        seen = set()
        for c in core + extra:
            c = dict(c)
            c["D"] = D
            if not _valid(c):
                continue
            key = repr(sorted((k, repr(v)) for k, v in c.items()))
            if key in seen:
                continue
            seen.add(key)
            got.append(c)
            if len(got) >= len(core) + n_extra:
                break
        out.extend(got)
    return out


def exhaustive(tier):
    return False


def run_cell(cfg, cx):
    import jax.numpy as jnp
    import ginjax.geometric as geom
    from jxsmt import sym as S, interp as I, refs

    D = cfg["D"]
    shape, fshape = tuple(cfg["shape"]), tuple(cfg["fshape"])
    k, kp = cfg["kk"]
    batch, in_c, out_c = cfg["chan"]
    torus = tuple(cfg["torus"])
    stride = tuple(cfg["stride"])
    rdil = tuple(cfg["rdil"])
    ldil = None if cfg["ldil"] is None else tuple(cfg["ldil"])
    padding = _padding_arg(cfg)
    if isinstance(padding, (tuple, list)):
        padding = tuple(tuple(q) for q in padding)
    wrap, zp = _zero_wrap(cfg)
    ld = ldil or (1,) * D
    ckey = ":".join(f"{a}={cfg[a]}" for a in ("fn", "D", "shape", "fshape", "torus", "kk", "stride", "rdil", "ldil", "pad", "chan"))
    fn = cfg["fn"]

    if fn == "convolve":
        A = S.var_array("A", (batch, in_c) + shape + (D,) * k)
        C = S.var_array("C", (out_c, in_c) + fshape + (D,) * kp)
        real = lambda a, c: geom.convolve(D, a, c, torus, stride, padding, ldil, rdil)
        ref = lambda a, c, zero: refs.ref_convolve(D, a, c, wrap, zp, stride, ld, rdil, zero)
    elif fn == "contract":
        A = S.var_array("A", (batch, in_c) + shape + (D,) * k)
        C = S.var_array("C", (out_c, in_c) + fshape + (D,) * kp)  # kp >= k : filter of order k + k'
        real = lambda a, c: geom.convolve_contract(D, a, c, torus, stride, padding, ldil, rdil)

        def ref(a, c, zero):
            full = refs.ref_convolve(D, a, c, wrap, zp, stride, ld, rdil, zero)  # (b,o,sp,(D,)*k,(D,)*kp)
            nsp = 2 + D
            out = np.empty(full.shape[:nsp] + (D,) * (kp - k), dtype=object)
            for idx in np.ndindex(*out.shape):
                acc = zero
                for js in itertools.product(range(D), repeat=k):
                    acc = acc + full[idx[:nsp] + js + js + idx[nsp:]]
                out[idx] = acc
            return out
    else:
        A = S.var_array("A", shape + (D,) * k)
        C = S.var_array("C", fshape + (D,) * kp)
        meta = {}

        def real(a, c):
            o = geom.GeometricImage(a, 0, D, torus).convolve_with(geom.GeometricImage(c, 1, D, torus), stride, padding, ldil, rdil)
            meta.update(k=o.k, parity=o.parity, D=o.D, is_torus=o.is_torus)
            return o.data
        ref = lambda a, c, zero: refs.ref_convolve(D, a[None, None], c[None, None], wrap, zp, stride, ld, rdil, zero)[0, 0]

    out = I.sym_call(real, A, C)
    expect = ref(A.a, C.a, S.ZERO)

    def replay(vals, bvals):
        a = cx.conc(A, vals)
        c = cx.conc(C, vals)
        r = ref(a.astype(object), c.astype(object), 0.0).astype(np.float64)
        return cx.deviates(np.asarray(real(jnp.asarray(a), jnp.asarray(c))), r)
    cx.equal("definition", out, expect, replay=replay, key=f"def:{ckey}")
    if fn == "object":
        cx.structural("declared type", meta.get("k") == k + kp and meta.get("parity") == 1 and tuple(meta.get("is_torus")) == torus,
                      f"got {meta}", key=f"objtype:{ckey}")
    # bilinear in (image, filter): every monomial has exactly one image and one filter variable
    from jxsmt.sym import CTX
    avars = {next(iter(q.atoms())) for q in A.a.reshape(-1)}
    cvars = {next(iter(q.atoms())) for q in C.a.reshape(-1)}
    bil = all(len(m) == 2 and ((m[0] in avars) != (m[1] in avars)) and ((m[0] in cvars) != (m[1] in cvars))
              for q in out.a.reshape(-1) for m in q.t)
    cx.structural("bilinear", bil, "an output entry is not bi-homogeneous of degree (1,1) in (image, filter)", key=f"bilinear:{ckey}")
    # translator validation (exact-concrete interpreter run vs real function)
    rng = np.random.RandomState(5)
    a0 = rng.randint(-2, 3, size=A.shape).astype(np.float32)
    c0 = rng.randint(-2, 3, size=C.shape).astype(np.float32)
    got = I.sym_call(real, S.const_array(a0), S.const_array(c0))
    mine = np.array([float(q.const_value()) for q in got.a.reshape(-1)]).reshape(got.shape)
    if not np.allclose(mine, np.asarray(real(jnp.asarray(a0), jnp.asarray(c0))), atol=1e-4):
        raise I.Unsupported("translator validation failed")
    cx.validated_against_impl()
    # canary: the reference with image and filter tensor indices in the other order / the filter flipped must be
    # refuted; where that happens to coincide with the definition (single reachable tap, ...) fall back to 2*definition
    if expect.size and any(q.t for q in expect.reshape(-1)):
        wrong = None
        if fn == "convolve" and k and kp:
            nsp = 2 + D
            perm = list(range(nsp)) + list(range(nsp + k, nsp + k + kp)) + list(range(nsp, nsp + k))
            wrong = np.transpose(expect, perm)
        elif max(fshape) > 1:
            flipped = C.a[(slice(None),) * (C.a.ndim - D - kp) + (slice(None, None, -1),) * D]
            wrong = ref(A.a, flipped, S.ZERO)
        if wrong is None or wrong.shape != out.shape or all(a.t == b.t for a, b in zip(wrong.reshape(-1), expect.reshape(-1))):
            wrong = expect * 2
        cx.canary("canary[wrong index order / flipped filter / doubled]", out, wrong)
