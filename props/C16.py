"""C16 — autoregressive rollout feeds each prediction back correctly."""
from __future__ import annotations

import itertools
import random

import numpy as np

INFO = {
    "explanation": "ml.autoregressive_step / ml.autoregressive_map are traced with the model replaced by an UNINTERPRETED function of its whole "
                   "input (a harness-defined JAX primitive mapped to z3 function symbols, so the statement is decided for every model "
                   "whatsoever, history-sensitive by construction) and compared (QF_UFLRA) with an explicit harness loop: n applications, "
                   "per-channel drop-oldest / append-newest, constants untouched in place and type order, predictions in time order per channel.",
    "functions": ["ml.autoregressive_step", "ml.autoregressive_map", "MultiImage.concat_inverse", "MultiImage.expand", "MultiImage.concat",
                  "MultiImage.combine_axes", "MultiImage.append"],
    "bounds": {
        "quick": "n<=3, past<=3, 7 signatures (dynamic-only, dynamic+constant, constant-only types; 1-2 channels; both key orders), d=2 1x2 images",
        "thorough": "n<=6, past<=5",
    },
    "outside": ["future_steps != 1 (the code asserts 1)"],
    "assumptions": ["inner model = uninterpreted function of its input in canonical (sorted-type) order: real models read blocks by type, not by "
                    "storage order; witnesses are replayed with a fixed generic nonlinear model"],
}

# (type, dynamic channels, constant channels) in storage order
SIGS = [
    [((0, 0), 2, 0)],
    [((0, 0), 1, 1), ((1, 0), 2, 0)],
    [((1, 0), 1, 1), ((0, 0), 2, 0)],
    [((0, 0), 0, 2), ((1, 0), 1, 0)],          # constant-only type first
    [((1, 0), 2, 1), ((0, 1), 0, 1), ((0, 0), 1, 2)],
    [((0, 1), 1, 0), ((0, 0), 1, 0)],
    [((1, 1), 1, 2)],
]


def cells(tier, seed):
    nmax, pmax = (3, 3) if tier == "quick" else (6, 5)
    out = []
    for si in range(len(SIGS)):
        for n in range(1, nmax + 1):
            for past in range(1, pmax + 1):
                if tier == "quick" and (n + past + si) % 2 and n > 1 and past > 1:
                    continue
                out.append({"sig": si, "n": n, "past": past})
    out.append({"kind": "dtype"})
    return out


def exhaustive(tier):
    return tier == "thorough"


def _dtype(cfg, cx):
    """'the step-t prediction appended as the newest': the value fed back is the prediction itself, whatever the storage types
    of the window and of the prediction (concrete facts about dtype promotion; outside the real-arithmetic solver claims)."""
    import jax.numpy as jnp
    import ginjax.geometric as geom
    import ginjax.ml as ml
    D, shape, past = 2, (2, 2), 2
    rng = np.random.default_rng(16)
    for in_dt, out_dt in (("int32", "float32"), ("float16", "float32"), ("float32", "float32"), ("bfloat16", "float32")):
        win = {(0, 0): jnp.asarray(rng.integers(-4, 5, size=(2 * past + 1,) + shape), dtype=in_dt),
               (1, 0): jnp.asarray(rng.integers(-4, 5, size=(1 * past,) + shape + (D,)), dtype=in_dt)}
        pred = {(0, 0): jnp.asarray(rng.normal(size=(2,) + shape) + 0.37, dtype=out_dt),
                (1, 0): jnp.asarray(rng.normal(size=(1,) + shape + (D,)) + 0.37, dtype=out_dt)}

        def probe():
            new = ml.autoregressive_step(geom.MultiImage(dict(win), D, True), geom.MultiImage(dict(pred), D, True), past, {(0, 0): 1})
            for kp, c in (((0, 0), 2), ((1, 0), 1)):
                blk = np.asarray(new[kp], dtype=np.float64)
                dyn = blk[: c * past].reshape((c, past) + blk.shape[1:])
                want_new = np.asarray(pred[kp], dtype=np.float64)
                want_old = np.asarray(win[kp], dtype=np.float64)[: c * past].reshape((c, past) + blk.shape[1:])[:, 1:]
                if not np.array_equal(dyn[:, -1], want_new):
                    return False, f"window {in_dt}, prediction {out_dt}: the newest step of type {kp} is not the prediction (max deviation {np.max(np.abs(dyn[:, -1] - want_new)):.3g})"
                if not np.array_equal(dyn[:, :-1], want_old):
                    return False, f"window {in_dt}, prediction {out_dt}: the kept past steps of type {kp} changed"
            if not np.array_equal(np.asarray(new[(0, 0)], dtype=np.float64)[-1], np.asarray(win[(0, 0)], dtype=np.float64)[-1]):
                return False, "the constant field changed"
            return True, "prediction fed back unchanged"
        ok, det = probe()
        cx.structural(f"fed-back value is the prediction [window {in_dt}, prediction {out_dt}]", ok, det,
                      replay=lambda v, b, probe=probe: (lambda r: (not r[0], r[1]))(probe()), key=f"dtype:{in_dt}:{out_dt}")


def run_cell(cfg, cx):
    if cfg.get("kind") == "dtype":
        return _dtype(cfg, cx)
    import jax.numpy as jnp
    import ginjax.geometric as geom
    import ginjax.ml as ml
    from jxsmt import sym as S, interp as I, stubs

    D, shape = 2, (1, 2)
    sg = [(tuple(kp), dc, cc) for kp, dc, cc in SIGS[cfg["sig"]]]
    n, past = cfg["n"], cfg["past"]
    out_sig = [(kp, dc) for kp, dc, cc in sg if dc > 0]
    const = {kp: cc for kp, dc, cc in sg if cc > 0}
    x = {kp: S.var_array(f"x{kp[0]}{kp[1]}", (dc * past + cc,) + shape + (D,) * kp[0]) for kp, dc, cc in sg}
    model = stubs.make_uf_model("m", out_sig)   # (its function symbol depends on the image's D and boundary flags)
    ckey = f"sig={cfg['sig']}:n={n}:past={past}"
    meta = {}
    flags = (True, False)   # not a torus on every axis: the fed-back input has to carry the flags along

    def rollout(xb):
        out, aux = ml.autoregressive_map(model, geom.MultiImage({kp: xb[kp] for kp, _, _ in sg}, D, flags), None, past, n, const)
        meta["keys"] = list(out.keys())
        meta["out_meta"] = (out.D, tuple(out.is_torus))
        return dict(out.data)

    def step(xb, yb):
        r = ml.autoregressive_step(geom.MultiImage({kp: xb[kp] for kp, _, _ in sg}, D, flags),
                                    geom.MultiImage({kp: yb[kp] for kp, _ in reversed(out_sig)}, D, flags), past, const)
        meta["step_keys"] = list(r.keys())
        meta["step_meta"] = (r.D, tuple(r.is_torus))
        return dict(r.data)

    # ---- reference loop
    def ref_step(xb, pred):
        new = {}
        for kp, dc, cc in sg:
            parts = []
            if dc:
                dyn = xb[kp][: dc * past].reshape((dc, past) + xb[kp].shape[1:])
                nd = np.concatenate([dyn[:, 1:], pred[kp].reshape((dc, 1) + xb[kp].shape[1:])], axis=1)
                parts.append(nd.reshape((dc * past,) + xb[kp].shape[1:]))
            if cc:
                parts.append(xb[kp][dc * past:])
            new[kp] = np.concatenate(parts, axis=0)
        return new

    cur = {kp: v.a for kp, v in x.items()}
    preds = []
    for t in range(n):
        pr = stubs.uf_model_apply("m", cur, out_sig, shape, D, flags)
        preds.append(pr)
        cur = ref_step(cur, pr)
    expect = {}
    for kp, dc in out_sig:
        # (c, n, ...) -> (c*n, ...): predictions in time order per channel
        st = np.stack([preds[t][kp] for t in range(n)], axis=1)
        expect[kp] = st.reshape((dc * n,) + st.shape[2:])

    got = I.sym_call(rollout, x)
    cx.structural("rollout types", set(got) == set(expect), f"keys {sorted(got)} expected {sorted(expect)}", key=f"types:{ckey}")

    def replay(vals, bvals, kp=None):
        xb = {q: jnp.asarray(cx.conc(v, vals)) for q, v in x.items()}
        r = rollout(xb)
        curf = {q: np.asarray(v, dtype=np.float64) for q, v in xb.items()}
        prs = []
        for t in range(n):
            vec = np.concatenate([np.asarray(curf[q], dtype=np.float32).reshape(-1) for q in sorted(curf)])
            sizes = [dc * int(np.prod(shape)) * D ** q[0] for q, dc in out_sig]
            y = stubs.generic_model(stubs._meta_name("m", D, flags), vec, int(sum(sizes))).astype(np.float32)
            pr, i = {}, 0
            for (q, dc), sz in zip(out_sig, sizes):
                pr[q] = y[i:i + sz].reshape((dc,) + shape + (D,) * q[0])
                i += sz
            prs.append(pr)
            curf = ref_step(curf, pr)
        st = np.stack([prs[t][kp] for t in range(n)], axis=1)
        return cx.deviates(np.asarray(r[kp]), st.reshape((-1,) + st.shape[2:]), rtol=1e-3)
    for kp in expect:
        if kp in got:
            cx.equal(f"rollout[{kp}]", got[kp], expect[kp], replay=lambda v, b, kp=kp: replay(v, b, kp), key=f"rollout:{kp}:{ckey}")
    # one step in isolation, with an arbitrary (symbolic) prediction
    y = {kp: S.var_array(f"y{kp[0]}{kp[1]}", (dc,) + shape + (D,) * kp[0]) for kp, dc in out_sig}
    st_got = I.sym_call(step, x, y)
    st_exp = ref_step({kp: v.a for kp, v in x.items()}, {kp: v.a for kp, v in y.items()})
    cx.structural("step: type order preserved", meta["step_keys"] == [kp for kp, _, _ in sg],
                  f"new input has key order {meta['step_keys']}, input had {[kp for kp, _, _ in sg]}", key=f"step-order:{ckey}")
    cx.structural("step / rollout: D and boundary flags carried over", meta["step_meta"] == (D, flags) and meta["out_meta"] == (D, flags),
                  f"(D, is_torus): new input {meta['step_meta']}, rollout {meta['out_meta']}, initial input {(D, flags)}", key=f"step-meta:{ckey}")
    for kp in st_exp:
        if kp in st_got:
            cx.equal(f"step[{kp}]", st_got[kp], st_exp[kp], key=f"step:{kp}:{ckey}",
                     replay=lambda vals, bvals, kp=kp: cx.deviates(
                         np.asarray(step({q: jnp.asarray(cx.conc(v, vals)) for q, v in x.items()},
                                         {q: jnp.asarray(cx.conc(v, vals)) for q, v in y.items()})[kp]),
                         ref_step({q: cx.conc(v, vals) for q, v in x.items()}, {q: cx.conc(v, vals) for q, v in y.items()})[kp]))
        else:
            cx.structural(f"step[{kp}] present", False, "type missing from the next input", key=f"step-missing:{kp}:{ckey}")
    # canary: oldest and newest swapped in the reference window update must be refuted
    kp0, dc0 = out_sig[0]
    if past > 1:
        xb = x[kp0].a
        dyn = xb[: dc0 * past].reshape((dc0, past) + xb.shape[1:])
        wrong = np.concatenate([y[kp0].a.reshape((dc0, 1) + xb.shape[1:]), dyn[:, 1:]], axis=1).reshape((dc0 * past,) + xb.shape[1:])
        wrong = np.concatenate([wrong, xb[dc0 * past:]], axis=0)
        cx.canary("canary[prediction inserted as oldest]", st_got[kp0], wrong)
    else:
        cx.canary("canary[prediction doubled]", st_got[kp0], st_exp[kp0] * 2)
