"""C11 — the linear layer computes its defining sum and returns the requested types."""
from __future__ import annotations

import numpy as np

from props import layers_common as LC
from props import C06

INFO = {
    "explanation": "The real ml.ConvContract.__call__ (built by the real constructor from the real filter bank) is traced and executed "
                   "symbolically with weights, biases and inputs as z3 Reals and compared (QF_NRA) with an independent evaluation written "
                   "from the statement: sum over input types of the contraction of the reference direct-sum convolution with the "
                   "weight-combined invariant filters of type (k_s+k_t, p_s+p_t), plus the bias rule.  The structural contract (exactly the "
                   "reachable target types, channel counts, spatial shape) is read off the traced output for all five bias settings.",
    "functions": ["ml.ConvContract.__init__", "ml.ConvContract.__call__", "ml.ConvContract.individual_convolve", "geom.convolve_contract",
                  "geom.convolve", "geom.conv_contract_image_expand"],
    "bounds": C06.INFO["bounds"],
    "outside": ["float32 rounding", "k>2"],
    "assumptions": ["wrap-around only in TORUS mode (C04)", "bias rule as stated: additive constant only for (0,0) in modes auto/scalar/True; "
                    "per-channel multiple of the spatial mean for the other types in auto/True and for all types in mean; none in False"],
}


def cells(tier, seed):
    cs = C06.gen_cells(tier, seed + 1000, with_stride=True)
    # an unreachable target: the B_2 / M=3 bank has no (0,1) filter, so (0,0)->(0,1) must be left out (and nothing else)
    for bias in ("auto", False, "scalar"):
        cs.append({"D": 2, "sig": "unreach", "bias": bias, "pad": "none", "rdil": 1, "ldil": "off", "torus": "all", "G": "B", "stride": 1})
    return cs


def exhaustive(tier):
    return False


def run_cell(cfg, cx):
    import jax.numpy as jnp
    from jxsmt import sym as S, interp as I, refs

    if cfg["sig"] == "unreach":
        C06.SIGS2.append(([((0, 0), 1)], [((0, 1), 1), ((0, 0), 2)]))
        cfg = dict(cfg)
        cfg["sig"] = len(C06.SIGS2) - 1
    b = C06.build(cfg)
    D = b["D"]
    ckey = C06.cfg_key(cfg)
    meta = {}
    out = I.sym_call(lambda W, B, x: C06.apply_layer(b, W, B, x, b["torus"], meta), b["W"], b["B"], b["x"])
    # every (input type, target type) pair whose filter type is in the bank must carry weights: otherwise the block cannot
    # contain that input's contribution to the defining sum
    missing = [(ik, ok) for ik, _ in b["in_sig"] for ok, _ in b["out_sig"]
               if ((ik[0] + ok[0]), (ik[1] + ok[1]) % 2) in b["filters"] and ok not in b["layer"].weights.get(ik, {})]

    def replay_missing(vals, bvals):
        import jax
        W, B, x = C06.conc_params(cx, b, {})
        rng = np.random.RandomState(0)
        W = {ik: {ok: jnp.asarray(rng.normal(size=w.shape), dtype=jnp.float32) for ok, w in d.items()} for ik, d in W.items()}
        x0 = {q: jnp.asarray(rng.normal(size=v.shape), dtype=jnp.float32) for q, v in x.items()}
        base_out = C06.apply_layer(b, W, B, x0, b["torus"])
        for ik, ok in missing:
            x1 = dict(x0)
            x1[ik] = x0[ik] + 1.0
            o1 = C06.apply_layer(b, W, B, x1, b["torus"])
            if ok not in base_out or float(np.max(np.abs(np.asarray(o1[ok]) - np.asarray(base_out[ok])))) == 0.0:
                return True, f"output block {ok} is missing or does not depend on input type {ik} although a filter of type {((ik[0] + ok[0]), (ik[1] + ok[1]) % 2)} exists"
        return False, "all reachable pairs contribute"
    cx.structural("weights exist for every reachable (input, target) pair", not missing, f"no weights for reachable pairs {missing}",
                  replay=replay_missing, key=f"pairs:{ckey}")
    if missing:
        return
    expect = LC.ref_conv_contract_layer(refs, S, D, {kp: v.a for kp, v in b["x"].items()},
                                        {ik: {ok: w.a for ok, w in d.items()} for ik, d in b["W"].items()},
                                        {ok: v.a for ok, v in b["B"].items()}, b["filters"], b["in_sig"], b["out_sig"], b["torus"],
                                        b["stride"], b["pad"], b["ldil"], b["rdil"], cfg["bias"], S.ZERO)
    reach = LC.reachable_targets(b["in_sig"], b["out_sig"], b["filters"])

    def replay_struct(vals, bvals):
        W, B, x = C06.conc_params(cx, b, {})
        m = {}
        C06.apply_layer(b, W, B, {q: jnp.asarray(v) for q, v in x.items()}, b["torus"], m)
        got = {kp: c for kp, c in m["sig"]} if m["keys"] else {}
        ok = got == {kp: c for kp, c in reach}
        return (not ok), f"output signature {m['sig']} but reachable requested targets are {reach}"
    got_sig = {kp: c for kp, c in meta["sig"]} if meta["keys"] else {}
    cx.structural("output types", got_sig == {kp: c for kp, c in reach},
                  f"bias={cfg['bias']!r}: output signature {meta['sig']} but the reachable requested targets are {reach}",
                  replay=replay_struct, key=f"types:bias={cfg['bias']!r}:{ckey}")
    cx.structural("D / flags", meta["D"] == D and tuple(meta["is_torus"]) == tuple(b["torus"]), f"{meta}")
    for kp, c in reach:
        if kp not in out:
            continue

        def replay(vals, bvals, kp=kp):
            W, B, x = C06.conc_params(cx, b, vals)
            l = C06.apply_layer(b, W, B, {q: jnp.asarray(v) for q, v in x.items()}, b["torus"])
            r = LC.ref_conv_contract_layer(refs, S, D, {q: v.astype(object) for q, v in x.items()},
                                           {ik: {ok: np.asarray(w).astype(object) for ok, w in d.items()} for ik, d in W.items()},
                                           {ok: np.asarray(v).astype(object) for ok, v in B.items()}, b["filters"], b["in_sig"], b["out_sig"],
                                           b["torus"], b["stride"], b["pad"], b["ldil"], b["rdil"], cfg["bias"], 0.0)
            return cx.deviates(np.asarray(l[kp]), r[kp].astype(np.float64))
        cx.equal(f"defining sum[{kp}]", out[kp], expect[kp], replay=replay, key=f"def:t={kp}:{ckey}")
    # canary: the reference evaluated with the bias rule of another mode, or doubled, must be refuted
    for kp, c in reach:
        if kp in out and any(q.t for q in expect[kp].reshape(-1)):
            cx.canary(f"canary[doubled {kp}]", out[kp], expect[kp] * 2)
            break
