"""C17 — mini-batching is an aligned partition of the data set."""
from __future__ import annotations

import contextlib
import itertools

import numpy as np

INFO = {
    "explanation": "ml.get_batches is traced with jax.random.permutation replaced by a stub that returns a SYMBOLIC integer vector (L integer "
                   "cases over boolean z3 variables constrained to a permutation matrix), and executed symbolically together with "
                   "MultiImage.get_subset / reshape_pmap on sample values that are z3 Reals.  z3 decides, for every permutation at once, "
                   "that slot (i,r) of every co-batched multi-image and every type holds sample pi(i*B+r), that there are floor(L/B) "
                   "batches, and that the device axis is a pure reshape; with rand_key=None the real arange is used and the order is the identity.",
    "functions": ["ml.get_batches", "MultiImage.get_subset", "MultiImage.reshape_pmap", "MultiImage.get_L"],
    "bounds": {
        "quick": "(L,B) with B<=L<=6 incl. non-divisible; 1-3 co-batched multi-images with different type sets; device counts dividing B (fake device lists: "
                 "only len() is used); sample blocks 1x(1,2) pixels",
        "thorough": "L<=10",
    },
    "outside": ["jax's PRNG itself (contract: random.permutation returns a permutation of range(L))"],
    "assumptions": ["random.permutation(key, L) returns a permutation of 0..L-1 (stubbed; asserted as exactly-one / at-most-one constraints)"],
}


def cells(tier, seed):
    Lmax = 6 if tier == "quick" else 10
    out = []
    for L in range(1, Lmax + 1):
        for B in range(1, L + 1):
            if tier == "quick" and L >= 5 and B not in (1, 2, 3, L):
                continue
            for nd in [d for d in (1, 2, 3) if B % d == 0]:
                for nmi in (1, 2, 3):
                    if (L + B + nd + nmi) % 2 and L > 3:
                        continue
                    for key in ("perm", "none"):
                        if key == "none" and (nmi != 2 or nd > 2):
                            continue
                        out.append({"L": L, "B": B, "nd": nd, "nmi": nmi, "key": key})
    return out


def exhaustive(tier):
    return False


MI_SIGS = [[((0, 0), 1), ((1, 0), 1)], [((1, 0), 2)], [((0, 1), 1), ((0, 0), 2)]]


def _enumerate_perms(cfg, cx, run, data, sigs, L, B, nd, nmi, nb, ckey, why):
    import jax.numpy as jnp
    rng = np.random.default_rng(17)
    blocks = [{kp: jnp.asarray(rng.normal(size=v.shape).astype(np.float32)) for kp, v in d.items()} for d in data]
    perms = list(itertools.permutations(range(L))) if cfg["key"] == "perm" else [tuple(range(L))]
    cx.note(f"C17: get_batches is not traceable with a symbolic permutation on the current source ({why}); L={L}: all {len(perms)} permutations run eagerly instead")

    def check(pv):
        r = run(jnp.asarray(pv, dtype=jnp.int32), blocks)
        if len(r) != nmi or any(len(lst) != nb for lst in r):
            return f"permutation {pv}: {[len(l) for l in r]} batches per multi-image, expected {nb}"
        for j, sg in enumerate(sigs):
            for i in range(nb):
                for kp, c in sg:
                    src = np.asarray(blocks[j][kp])
                    exp = np.stack([src[pv[i * B + q]] for q in range(B)], axis=0).reshape((nd, B // nd) + src.shape[1:])
                    got = np.asarray(r[j][i][kp]) if kp in r[j][i] else None
                    if got is None or got.shape != exp.shape or not np.array_equal(got, exp):
                        return f"permutation {pv}: batch {i} of multi-image {j}, type {kp} does not hold samples {[pv[i * B + q] for q in range(B)]}"
        return None
    bad, badpv = None, None
    for pv in perms:
        bad = check(pv)
        if bad:
            badpv = pv
            break
    cx.structural("every slot holds sample pi(iB+r) [all permutations enumerated eagerly]", bad is None, bad or "",
                  replay=lambda v, b: ((check(badpv) is not None) if badpv is not None else any(check(q) for q in perms), bad or "re-enumerated"),
                  key=f"enum:{ckey}")


def run_cell(cfg, cx):
    import jax
    import jax.numpy as jnp
    import ginjax.geometric as geom
    import ginjax.ml as ml
    import ginjax.ml.training as training
    from jxsmt import sym as S, interp as I

    D, shape = 2, (1, 2)
    L, B, nd, nmi = cfg["L"], cfg["B"], cfg["nd"], cfg["nmi"]
    sigs = MI_SIGS[:nmi]
    data = [{kp: S.var_array(f"m{j}x{kp[0]}{kp[1]}", (L, c) + shape + (D,) * kp[0]) for kp, c in sg} for j, sg in enumerate(sigs)]
    ckey = f"L={L}:B={B}:nd={nd}:nmi={nmi}:key={cfg['key']}"
    nb = L // B
    # symbolic permutation
    bv = [[S.CTX.bvar(f"p{i}_{v}") for v in range(L)] for i in range(L)]
    perm = np.empty((L,), dtype=object)
    for i in range(L):
        perm[i] = S.Cases([(bv[i][v], v) for v in range(L)])
    perm = S.Sym(perm, "int", np.dtype("int32"))
    assum = []
    for i in range(L):
        assum.append(S.bor(*bv[i]))
        for v, w in itertools.combinations(range(L), 2):
            assum.append(S.bnot(S.band(bv[i][v], bv[i][w])))
    for v in range(L):
        for i, j in itertools.combinations(range(L), 2):
            assum.append(S.bnot(S.band(bv[i][v], bv[j][v])))

    @contextlib.contextmanager
    def patched(pvec):
        real = training.random.permutation

        def stub(*a, **k):
            # the call the real code makes must be a valid call of jax.random.permutation producing a permutation of range(L)
            # (arguments are concrete: run it for real first); only then is its result replaced by the symbolic permutation
            with jax.ensure_compile_time_eval():
                try:
                    out = real(*a, **k)
                except Exception as e:  # noqa: BLE001 - only the real jax function called with the real code's arguments is inside this try
                    raise I.RealCodeRaised(e, "ml/training.py in get_batches (its call of jax.random.permutation)") from e
                if isinstance(out, jax.core.Tracer):
                    return pvec  # the key was derived inside the trace: the call type-checked, its value cannot be inspected
                r = np.asarray(out)
            if r.shape != (L,) or sorted(int(v) for v in r) != list(range(L)):
                raise I.RealCodeRaised(ValueError(f"get_batches asks jax.random.permutation for {r.shape} values {r.tolist()[:8]}, not a permutation of range({L})"),
                                       "ml/training.py in get_batches")
            return pvec
        training.random.permutation = stub
        try:
            yield
        finally:
            training.random.permutation = real

    devices = [None] * nd
    KEY0 = jax.random.PRNGKey(0)  # concrete, made outside any trace (the stub runs the real jax.random.permutation on it eagerly)

    def run(pvec, blocks):
        mis = [geom.MultiImage({kp: bl[kp] for kp, _ in sg}, D, True) for bl, sg in zip(blocks, sigs)]
        arg = mis[0] if nmi == 1 else tuple(mis)
        if cfg["key"] == "perm":
            with patched(pvec):
                batches = ml.get_batches(arg, B, KEY0, devices)
        else:
            batches = ml.get_batches(arg, B, None, devices)
        return [[dict(b.data) for b in lst] for lst in batches]

    try:
        got = I.sym_call(run, perm, data)
    except I.Unsupported:
        raise
    except Exception as e:  # noqa: BLE001
        if not (getattr(e, "_seen_while_tracing", False) and I.real_code_frame(e) is not None):
            raise
        # The current get_batches cannot be traced with a symbolic permutation (e.g. Python control flow on the index values).
        # It is only ever run eagerly, so decide the same bounded space by running it eagerly on EVERY permutation of range(L)
        # (L! concrete runs instead of one solver query; recorded as such).
        _enumerate_perms(cfg, cx, run, data, sigs, L, B, nd, nmi, nb, ckey, type(e).__name__)
        return
    cx.structural("batch count", len(got) == nmi and all(len(lst) == nb for lst in got),
                  f"{[len(l) for l in got]} batches per multi-image, expected {nb}", key=f"count:{ckey}")

    def expected_slot(block, s):
        """value of sample pi(s) as the same ite-chain the symbolic-index rule builds"""
        if cfg["key"] == "none":
            return block[s]
        cur = block[0]
        out = np.empty(cur.shape, dtype=object)
        for idx in np.ndindex(*cur.shape):
            c = block[(0,) + idx]
            for v in range(1, L):
                c = S.ite(bv[s][v], block[(v,) + idx], c)
            out[idx] = c
        return out

    def replay_factory(j, kp, i):
        def replay(vals, bvals):
            pv = []
            for r in range(L):
                vs = [v for v in range(L) if bvals.get(f"p{r}_{v}")]
                pv.append(vs[0] if len(vs) == 1 else r)
            if cfg["key"] == "perm" and sorted(pv) != list(range(L)):
                return False, f"model is not a permutation: {pv}"
            blocks = [{q: jnp.asarray(cx.conc(v, vals)) for q, v in d.items()} for d in data]
            r = run(jnp.asarray(pv, dtype=jnp.int32), blocks)
            if len(r[j]) <= i:
                return True, "batch missing"
            gotb = np.asarray(r[j][i][kp])
            order = pv if cfg["key"] == "perm" else list(range(L))
            src = np.asarray(blocks[j][kp])
            exp = np.stack([src[order[i * B + q]] for q in range(B)], axis=0).reshape((nd, B // nd) + src.shape[1:])
            return cx.deviates(gotb, exp, rtol=1e-6)
        return replay

    for j, sg in enumerate(sigs):
        for i in range(min(nb, len(got[j]) if j < len(got) else 0)):
            for kp, c in sg:
                if kp not in got[j][i]:
                    cx.structural(f"type {kp} present in batch", False, "type missing", key=f"missing:{ckey}")
                    continue
                blk = data[j][kp].a
                exp = np.stack([expected_slot(blk, i * B + r) for r in range(B)], axis=0)
                exp = exp.reshape((nd, B // nd) + exp.shape[1:])
                cx.equal(f"batch[mi={j},i={i},{kp}]", got[j][i][kp], exp, assumptions=assum, replay=replay_factory(j, kp, i),
                         key=f"slot:mi={j}:t={kp}:{ckey}")
    # canary: first slot declared to hold sample pi(1) must be refuted (needs L>=2)
    if L >= 2 and nb >= 1:
        kp0 = sigs[0][0][0]
        blk = data[0][kp0].a
        wrong = np.stack([expected_slot(blk, (r + 1) % L) for r in range(B)], axis=0).reshape((nd, B // nd) + blk.shape[1:])
        cx.canary("canary[slots shifted by one]", got[0][0][kp0], wrong, assumptions=assum)
    # the assumption set (permutation constraints) is satisfiable on its own
    if cfg["key"] == "perm":
        cx.holds("canary[permutation constraints contradictory]", S.FALSE, assumptions=assum, canary=True)
