"""C19 — stopping conditions stop training exactly when specified, for any loss history."""
INFO = {
    "explanation": "CrossHair executes the real TrainLoss.stop / ValLoss.stop / EpochStop.stop symbolically: (H) bounded histories - a symbolic "
                   "List[float] of length <=3 (quick) / 5 (thorough), symbolic patience and min_delta - against a reference state machine written from the statement "
                   "(first stopping epoch, never earlier, best_model = model of the best epoch / last model); (I) one inductive step from an "
                   "arbitrary state (best, epochs_since_best), which covers histories of any length.  Losses are fed as float and wrapped in a "
                   "scalar class that, like np.float32 / 0-d jax arrays (what ml.train supplies), is not an instance of float.  Counterexamples "
                   "are replayed on the freshly imported real classes with genuine float / np.float32 / jax scalars.",
    "functions": ["TrainLoss.__init__", "TrainLoss.stop", "ValLoss.__init__", "ValLoss.stop", "EpochStop.stop", "StopCondition.__init__"],
    "bounds": {"quick": "histories of length <=3, patience 0..3 (0..5 for the inductive step, which covers any length), 0<=min_delta<=8, losses in [0,100]; "
                        "EpochStop epochs<=12", "thorough": "histories of length <=5"},
    "outside": ["verbose logging (log_status formatting)", "the body of ml.train other than its call protocol (first call with None losses, then one call per epoch)"],
    "assumptions": ["non-float scalars modelled by a wrapper class + module-level float() stub returning the wrapped value "
                    "(validated by concrete differential runs with genuine np.float32 / jax scalars on every run)"],
}


def cells(tier, seed):
    return [{"xhair": "c19"}]


def exhaustive(tier):
    return False


def run_cell(cfg, cx):
    from xhair import runner
    runner.run_c19(cx, cx.tier)
    runner.train_protocol_check(cx)
