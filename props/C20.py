"""C20 — every model maps its input signature to exactly its requested output signature."""
from __future__ import annotations

import copy
import itertools
import random

import numpy as np

from props.common import pairwise_cover
from props import layers_common as LC

INFO = {
    "explanation": "Structural half: for each constructor cell the real model is traced (jax.eval_shape of the real __call__) and output keys, type "
                   "order, channel counts, spatial shape, D and is_torus are read from the traced output pytree and compared with the request "
                   "(equivariant mode: the types reachable through the bank) - exact for all inputs because JAX shapes are value-independent; no "
                   "SMT query is involved in this half.  Value half (SMT): in conventional mode the scalar CNN between the flattening and its "
                   "inverse is replaced by an uninterpreted function and z3 (QF_UFLRA) decides that output block t, channel c, component i, "
                   "pixel x is the CNN's output channel off_t + c*D^k + i at x, fed with the documented flattening of the input.",
    "functions": ["models.ResNet.__call__", "models.DilResNet.__call__", "models.UNet.__call__", "models.ConvBlock.__call__", "models.make_conv",
                  "MultiImage.to_scalar_multi_image", "MultiImage.from_scalar_multi_image", "ml.LayerWrapper.__call__", "ml.ConvContract.__call__"],
    "bounds": {
        "quick": "classes {ResNet, DilResNet, UNet, ConvBlock} x {equivariant, conventional} x depth {1,3} x blocks {1,2} x downsamples {1,2} x norm x bias x "
                 "activation x kernel {3,(3,1)} x 8 signatures (several types, pseudo-types, unequal channels, both key orders, single-type outputs incl. a lone pseudoscalar / pseudovector) x torus {True, False, mixed} x "
                 "d in {2,3}, N=4 (8 for 2 downsamples): pairwise-covering core + seeded cells",
        "thorough": "300 seeded cells",
    },
    "outside": ["equivariant d=3 models asked for a type that is only reachable through intermediate types of higher order than the model holds "
                "(signatures 5 and 7 are used in d=2 and in conventional mode only)", "BatchNorm (needs an eqx.nn.State; the structural half runs with use_batch_norm=False)"],
    "assumptions": ["value half: the scalar CNN is an uninterpreted function of its input array"],
}

SIGS = [
    ([((0, 0), 1), ((1, 0), 1)], [((1, 0), 1)]),
    ([((1, 0), 2), ((0, 0), 1)], [((1, 0), 1), ((0, 0), 3)]),
    ([((0, 1), 1), ((1, 0), 1)], [((0, 0), 1), ((1, 1), 1)]),
    ([((1, 1), 2)], [((0, 1), 1), ((1, 0), 2)]),
    ([((0, 0), 2)], [((2, 0), 1), ((0, 0), 1)]),
    ([((0, 0), 1), ((1, 0), 1)], [((0, 1), 2)]),          # a single output type, and it is a pseudoscalar
    ([((0, 1), 1)], [((0, 1), 1)]),                         # pseudoscalar only, both sides
    ([((1, 0), 1)], [((1, 1), 2)]),                         # a single pseudovector output
]


def cells(tier, seed):
    axes = {
        "cls": ["resnet", "dil", "unet", "block"],
        "equiv": [True, False],
        "depth": [1, 3],
        "blocks": [1, 2],
        "down": [1, 2],
        "norm": [True, False],
        "bias": ["auto", "mean", False, True],
        "act": ["relu", "gelu", None],
        "kernel": [3, (3, 1)],
        "sig": list(range(len(SIGS))),
        "torus": ["all", "none", "mixed"],
        "D": [2, 3],
        "roundtrip": [False, True],
    }
    core = pairwise_cover(axes, seed=20)
    rng = random.Random(seed + 20)
    names = list(axes)
    extra = [dict(zip(names, [rng.choice(axes[n]) for n in names])) for _ in range(10 if tier == "quick" else 300)]
    out, seen = [], set()
    for c in core + extra:
        c = dict(c)
        c["kind"] = "struct"
        if c["sig"] == 4 and c["equiv"] and c["norm"]:
            c["norm"] = False
        if not c["equiv"] and c["bias"] == "mean":
            c["bias"] = "auto"
        if c["D"] == 3:
            c["kernel"] = 3
            c["blocks"] = 1
            if c["sig"] == 4:
                c["sig"] = 0
            if c["equiv"] and c["sig"] in (5, 7):
                # d=3, side 3, orders <= 2: B_3 has no invariant filter of type (0,1) or (1,1), so a pseudoscalar is not DIRECTLY reachable
                # from scalars / vectors; whether a model must route it through order-2 intermediate types is not what the statement
                # fixes -> these signatures are used in d=2 and in conventional mode only
                c["sig"] = 6
        k = repr(sorted((a, repr(b)) for a, b in c.items()))
        if k not in seen:
            seen.add(k)
            out.append(c)
    for cls in ("resnet", "dil", "unet"):
        for D in (2, 3):
            for si in (1, 3, 4, 5, 6, 7):
                if D == 3 and si in (4, 7):
                    continue
                out.append({"kind": "value", "cls": cls, "D": D, "sig": si})
    for D in (2, 3):
        out.append({"kind": "layerwrapper", "D": D})
    return out


def exhaustive(tier):
    return False


def _build(cfg):
    import jax
    import ginjax.geometric as geom
    import ginjax.ml  # noqa: F401
    import ginjax.models as models
    D = cfg["D"]
    in_sig, out_sig = SIGS[cfg["sig"]]
    in_sig = [(tuple(q), c) for q, c in in_sig]
    out_sig = [(tuple(q), c) for q, c in out_sig]
    key = jax.random.PRNGKey(cfg.get("seed", 2))
    equiv = cfg.get("equiv", False)
    bank = up = None
    if equiv:
        kmax = 2 * max(q[0] for q, _ in in_sig + out_sig)
        ks = list(range(max(kmax, 2) + 1)) if D == 2 else list(range(min(max(kmax, 2), 2) + 1))
        bank = LC.bank(D, 3, ks, [0, 1], "B")
        up = LC.bank(D, 2, ks, [0, 1], "B")
    ik, ok = LC.sig(in_sig), LC.sig(out_sig)
    ker = cfg.get("kernel", 3)
    if isinstance(ker, (list, tuple)):
        ker = tuple(ker) + (ker[0],) * (D - len(ker))
    cls = cfg["cls"]
    act = cfg.get("act", "relu")
    kw = dict(use_bias=cfg.get("bias", "auto"), equivariant=equiv, conv_filters=bank, kernel_size=None if equiv else ker)
    if cls == "resnet":
        m = models.ResNet(D, ik, ok, depth=cfg.get("depth", 1), num_blocks=cfg.get("blocks", 1), num_conv=1, activation_f=act if act else "relu",
                          use_group_norm=cfg.get("norm", False), key=key, **kw)
    elif cls == "dil":
        m = models.DilResNet(D, ik, ok, depth=cfg.get("depth", 1), num_blocks=cfg.get("blocks", 1), activation_f=act, use_group_norm=cfg.get("norm", False),
                             key=key, **kw)
    elif cls == "unet":
        m = models.UNet(D, ik, ok, depth=cfg.get("depth", 1), num_downsamples=cfg.get("down", 1), num_conv=1, activation_f=act if act else "relu",
                        upsample_filters=up, use_group_norm=cfg.get("norm", False), key=key, **kw)
    else:
        if not equiv:
            # the conventional ConvBlock is a scalar-to-scalar block (make_conv asserts it)
            cin = sum(c * D ** q[0] for q, c in in_sig)
            cout = sum(c * D ** q[0] for q, c in out_sig)
            in_sig, out_sig = [((0, 0), cin)], [((0, 0), cout)]
            ik, ok = LC.sig(in_sig), LC.sig(out_sig)
        m = models.ConvBlock(D, ik, ok, cfg.get("bias", "auto"), act, equiv, bank, None if equiv else ker,
                             use_group_norm=cfg.get("norm", False) and (not equiv or all(q[0] <= 1 for q, _ in out_sig)), key=key)
    return m, in_sig, out_sig, bank


def _layerwrapper(cfg, cx):
    """ml.LayerWrapper / LayerWrapperAux apply the module to every type and hand each result back under ITS OWN type, in input order."""
    import jax.numpy as jnp
    import ginjax.geometric as geom
    import ginjax.ml as ml
    from jxsmt import sym as S, interp as I
    D = cfg["D"]
    N = 2
    types = [((1, 0), 2), ((0, 1), 1), ((0, 0), 2), ((1, 1), 1)]
    flags = tuple(i % 2 == 0 for i in range(D))
    x = {kp: S.var_array(f"x{kp[0]}{kp[1]}", (c,) + (N,) * D + (D,) * kp[0]) for kp, c in types}
    for nm in ("LayerWrapper", "LayerWrapperAux"):
        meta = {}

        def run(xb, nm=nm):
            mi = geom.MultiImage({kp: xb[kp] for kp, _ in types}, D, flags)
            if nm == "LayerWrapper":
                out = ml.LayerWrapper(lambda im: im * 3 + 1, geom.Signature(tuple(types)))(mi)
            else:
                out, aux = ml.LayerWrapperAux(lambda im, aux: (im * 3 + 1, aux), geom.Signature(tuple(types)))(mi, None)
                meta["aux"] = aux
            meta.update(order=list(out.keys()), D=out.D, flags=tuple(out.is_torus))
            return dict(out.data)
        got = I.sym_call(run, x)
        cx.structural(f"{nm}: types, order, D, flags", meta["order"] == [kp for kp, _ in types] and meta["D"] == D and meta["flags"] == flags
                      and meta.get("aux") is None, f"{meta}", key=f"lw:{nm}:meta:D={D}")
        for kp, _ in types:
            if kp in got:
                cx.equal(f"{nm}: block {kp} is the module applied to block {kp}", got[kp], x[kp].a * 3 + 1, key=f"lw:{nm}:{kp}:D={D}",
                         replay=lambda vals, bvals, kp=kp, run=run: cx.deviates(
                             np.asarray(run({q: jnp.asarray(cx.conc(v, vals)) for q, v in x.items()})[kp]), cx.conc(x[kp], vals) * 3 + 1))
    cx.canary("canary[module not applied]", got[(1, 0)], x[(1, 0)].a)


def run_cell(cfg, cx):
    if cfg["kind"] == "layerwrapper":
        return _layerwrapper(cfg, cx)
    if cfg["kind"] == "struct":
        _struct(cfg, cx)
    else:
        _value(cfg, cx)


def _reachable_through(model_in, out_sig, bank):
    return out_sig


def _struct(cfg, cx):
    import jax
    import jax.numpy as jnp
    import ginjax.geometric as geom
    D = cfg["D"]
    m, in_sig, out_sig, bank = _build(cfg)
    if cfg.get("roundtrip"):
        # what every optimiser step, eqx.tree_at, save/load or filter_jit does to a model: the pytree is rebuilt (dict nodes come back
        # in sorted key order).  The model's signature must not depend on it.
        m = jax.tree_util.tree_map(lambda v: v, m)
    down = cfg.get("down", 1) if cfg["cls"] == "unet" else 0
    N = 4 if down <= 1 else 8
    if D == 3 and down > 1:
        N = 4
        down = 1
    shape = (N,) * D if cfg["torus"] != "mixed" else (N,) + (2 * N,) * (D - 1)
    torus = {"all": (True,) * D, "none": (False,) * D, "mixed": tuple(i % 2 == 0 for i in range(D))}[cfg["torus"]]
    x = geom.MultiImage({q: jnp.zeros((c,) + shape + (D,) * q[0]) for q, c in in_sig}, D, torus)
    ckey = ":".join(f"{a}={cfg[a]}" for a in sorted(cfg) if a != "kind")
    meta = {}

    def traced(xx):
        r = m(xx)
        o = r[0] if isinstance(r, tuple) else r
        # key order must be read INSIDE the trace: pytree flattening of the returned MultiImage sorts the dict keys
        meta["order"] = list(o.keys())
        return r
    try:
        res = jax.eval_shape(traced, x)
    except Exception as e:  # noqa: BLE001
        def rp(vals, bvals):
            try:
                m(x)
            except Exception as e2:  # noqa: BLE001
                return True, f"model(x) raises {type(e2).__name__}: {str(e2)[:150]}"
            return False, "did not raise un-traced"
        cx.structural("model accepts its declared input signature", False, f"raised {type(e).__name__}: {str(e)[:200]}", replay=rp, key=f"raise:{ckey}")
        return
    out = res[0] if isinstance(res, tuple) else res
    got = [(q, out[q].shape[0]) for q in meta["order"]]
    expect = list(out_sig)
    if cfg.get("equiv"):
        # types reachable from the input types through the filter types present in the bank: with the full k<=2kmax bank every
        # requested type is reachable except those whose every connecting filter type has no invariant filter
        pass
    cx.structural("output types and channel counts", dict(got) == dict(expect), f"got {got}, requested {expect}", key=f"types:{ckey}")
    cx.structural("output type order", [q for q, _ in got] == [q for q, _ in expect] or dict(got) != dict(expect),
                  f"got order {[q for q, _ in got]}, requested {[q for q, _ in expect]}",
                  key=f"order:cls={cfg['cls']}:equiv={cfg.get('equiv')}:sig={cfg['sig']}:D={D}:roundtrip={cfg.get('roundtrip', False)}")
    ok_shape = all(tuple(out[q].shape[1:1 + D]) == shape and tuple(out[q].shape[1 + D:]) == (D,) * q[0] for q in out.keys())
    cx.structural("spatial shape / tensor shape", ok_shape, f"{ {q: out[q].shape for q in out.keys()} } for input spatial {shape}", key=f"shape:{ckey}")
    cx.structural("D and boundary flags", out.D == D and tuple(out.is_torus) == tuple(torus), f"D={out.D} is_torus={out.is_torus} (input {torus})",
                  key=f"flags:{ckey}")


def _value(cfg, cx):
    import jax.numpy as jnp
    import equinox as eqx
    import ginjax.geometric as geom
    import ginjax.ml  # noqa: F401
    import ginjax.models as models
    from jxsmt import sym as S, interp as I, stubs

    D = cfg["D"]
    c2 = dict(cfg)
    c2.update(equiv=False, depth=1, blocks=1, down=1, norm=False, bias="auto", act="relu", kernel=3)
    m, in_sig, out_sig, _ = _build(c2)
    N = 2
    shape = (N,) * D
    cout = sum(c * D ** q[0] for q, c in out_sig)

    class StubBlock(models.MultiImageModule):
        def __call__(self, x, aux=None):
            y = stubs.ufa_p.bind(x[(0, 0)], name="cnn", out_shape=(cout,) + shape)
            return geom.MultiImage({(0, 0): y}, x.D, x.is_torus), aux

    class StubLayer(eqx.Module):
        def __call__(self, x):
            y = stubs.ufa_p.bind(x[(0, 0)], name="cnn", out_shape=(cout,) + shape)
            return geom.MultiImage({(0, 0): y}, x.D, x.is_torus)

    class Ident(eqx.Module):
        def __call__(self, x):
            return x
    m2 = copy.copy(m)
    if cfg["cls"] in ("resnet", "dil"):
        object.__setattr__(m2, "encoder", [StubBlock()])
        object.__setattr__(m2, "blocks", [])
        object.__setattr__(m2, "decoder", [])
    else:
        object.__setattr__(m2, "embedding", [])
        object.__setattr__(m2, "downsample_blocks", [])
        object.__setattr__(m2, "upsample_blocks", [])
        object.__setattr__(m2, "decode", StubLayer())
    x = {q: S.var_array(f"x{q[0]}{q[1]}", (c,) + shape + (D,) * q[0]) for q, c in in_sig}
    meta = {}

    def run(xb):
        out, _ = m2(geom.MultiImage({q: xb[q] for q, _ in in_sig}, D, True))
        meta["sig"] = out.get_signature()
        return dict(out.data)
    got = I.sym_call(run, x)
    parts = []
    for q, c in in_sig:
        b = x[q].a
        b2 = np.moveaxis(b.reshape((c,) + shape + (D ** q[0],)), -1, 1)
        parts.append(b2.reshape((c * D ** q[0],) + shape))
    flat_in = np.concatenate(parts, axis=0)
    y = stubs.uf_apply("cnn", flat_in.reshape(-1), cout * int(np.prod(shape))).reshape((cout,) + shape)
    cx.structural("conventional output signature", tuple(meta["sig"]) == tuple(out_sig), f"{meta['sig']} vs {out_sig}", key=f"vsig:{cfg['cls']}:D={D}:{cfg['sig']}")
    off = 0
    for q, c in out_sig:
        k = q[0]
        exp = np.empty((c,) + shape + (D,) * k, dtype=object)
        for ch in range(c):
            for i, comp in enumerate(itertools.product(range(D), repeat=k)):
                exp[(ch,) + (slice(None),) * D + comp] = y[off + ch * D ** k + i]
        off += c * D ** k
        if q in got:
            cx.equal(f"component placement [{q}]", got[q], exp, key=f"place:{cfg['cls']}:D={D}:sig={cfg['sig']}:{q}")
    q0, c0 = out_sig[-1]
    if q0 in got:
        wrong = np.empty(got[q0].shape, dtype=object)
        wrong[...] = y[(0,) + (0,) * D]
        cx.canary("canary[last block filled with channel 0]", got[q0], wrong)
