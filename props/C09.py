"""C09 — training cannot break equivariance."""
from __future__ import annotations

import numpy as np

from props import layers_common as LC

INFO = {
    "explanation": "Inductive step instead of history exploration.  Invariant: every invariant_filters leaf is c*F0 (c a scalar) with zero "
                   "optimiser moments; all other array leaves arbitrary.  (a) Leaf census: every array leaf of each model class is classified by "
                   "pytree path into 'free' (equivariance proved for ALL their values in C06/C07/C08) and 'constrained' (invariant_filters); an "
                   "unknown kind is reported.  (b) The real ml.train_step (filter_value_and_grad, the pmap body, device mean, optax update, "
                   "apply_updates) is traced around the real model with a standard map_and_loss; jax's own dead-code elimination restricts the "
                   "jaxpr to the new filter leaves and their new optimiser moments; the slice is executed symbolically with the filter bank "
                   "itself, the step count and the hyper-parameter constants symbolic, and z3 decides F'_i F_0 = F'_0 F_i (common rescaling; "
                   "F' = F for sgd/adam) and new filter moments = 0.  The slice's input set (read from the jaxpr) must not contain data, other "
                   "parameters or their moments - i.e. d loss / d F == 0.  (c) For each trained model class the post-step model - arbitrary free parameters, filter bank abstracted to its sign/magnitude pattern, "
                   "which any common rescaling preserves - is proved equivariant with the whole-network machinery of C07.  (e) The WHOLE loop ml.train "
                   "(get_batches with its key chain, every train_step of every epoch, the validation pass, the best_model hand-back) is traced as one jaxpr under "
                   "EpochStop; the returned model must have the array-leaf structure of the given one, and the dead-code-eliminated slice of each returned "
                   "filter leaf must depend on nothing but the initial leaf and is executed symbolically: common rescaling (equal, without weight decay).  (d) A witness is replayed by "
                   "running the real train_step on floats.",
    "functions": ["ml.train", "ml.get_batches", "ml.map_loss_in_batches", "EpochStop.stop", "ml.train_step", "eqx.filter_value_and_grad", "eqx.filter_pmap body (shard_map)", "optax.sgd / adam / adamw update", "eqx.apply_updates",
                  "ml.ConvContract.individual_convolve (stop_gradient on the bank)", "ml.smse_loss"],
    "bounds": {
        "quick": "models {ConvContract, ConvBlock(+norm), ResNet, UNet(+norm)} x optimisers {sgd, sgd+momentum, adam, adamw(decay)} x step count {0, 7}; d=2, N=4, batch 2; "
                 "ml.train whole: 5 (model, optimiser, epochs<=2, validation on/off) cells, 4 samples, batch 2",
        "thorough": "adds DilResNet, d=3 ResNet, lion / rmsprop / adagrad, step counts {0,1,7}",
    },
    "outside": ["ml.train is traced whole only under EpochStop (1-2 epochs quick, 3 thorough; 2 batches per epoch): with TrainLoss / ValLoss its control flow "
                "branches on loss values and cannot be one jaxpr; which iterate those conditions hand back is C19's subject",
                "optimisers outside the enumerated set; parameter-dependent learning-rate schedules"],
    "assumptions": ["equivariance of the post-step model follows from C07 (all parameter values; filter bank abstracted to its sign/magnitude pattern, which a "
                    "common rescaling preserves)"],
}

MODELS = ["conv", "block", "block_norm", "resnet", "unet", "conv_ps", "resnet_ps"]   # _ps: signatures with pseudoscalar / pseudovector types
OPTS = ["sgd", "momentum", "adam", "adamw"]


def cells(tier, seed):
    out = []
    models_ = MODELS + (["dil", "resnet3d"] if tier == "thorough" else [])
    opts = OPTS + (["lion", "rmsprop", "adagrad"] if tier == "thorough" else [])
    for m in models_:
        for o in opts:
            for count in ((0, 7) if tier == "quick" else (0, 1, 7)):
                if tier == "quick" and m in ("resnet", "unet") and count == 7 and o in ("sgd", "momentum"):
                    continue
                if tier == "quick" and m.endswith("_ps") and not (o == "adamw" and count == 7):
                    continue
                out.append({"model": m, "opt": o, "count": count})
    for m in models_:
        out.append({"kind": "equiv", "model": m, "opt": "-", "count": -1})
    # the whole training loop ml.train (EpochStop, so that the loop's control flow does not depend on loss values and can be traced)
    loops = [("conv", "adamw", 2, True), ("conv", "sgd", 1, False), ("block_norm", "adamw", 1, True), ("conv_ps", "momentum", 2, False),
             ("resnet", "adam", 1, False)]
    if tier == "thorough":
        loops += [(m, o, e, v) for m in ("conv", "block_norm", "resnet", "unet", "conv_ps") for o in ("sgd", "adam", "adamw", "lion") for e, v in ((1, True), (3, False))]
    seen = set()
    for m, o, e, v in loops:
        if (m, o, e, v) not in seen:
            seen.add((m, o, e, v))
            out.append({"kind": "loop", "model": m, "opt": o, "count": e, "val": v})
    return out


def exhaustive(tier):
    return True


def _model(name):
    import jax
    import ginjax.geometric as geom
    import ginjax.ml as ml
    import ginjax.models as models
    D = 3 if name == "resnet3d" else 2
    bank = LC.bank(D, 3, [0, 1, 2], [0, 1], "B")
    in_sig, out_sig = [((0, 0), 1), ((1, 0), 1)], [((1, 0), 1)]
    if name.endswith("_ps"):
        in_sig, out_sig = [((0, 1), 1), ((1, 0), 1)], [((0, 1), 1), ((1, 1), 1), ((0, 0), 1)]
        name = name[:-3]
    ik, ok = LC.sig(in_sig), LC.sig(out_sig)
    key = jax.random.PRNGKey(4)
    if name == "conv":
        layer = ml.ConvContract(ik, ok, bank, "auto", key=key)

        class Wrap(models.MultiImageModule):
            layer: ml.ConvContract

            def __call__(self, x, aux=None):
                return self.layer(x), aux
        m = Wrap(layer)
    elif name == "block":
        m = models.ConvBlock(D, ik, ok, "auto", "relu", True, bank, key=key)
    elif name == "block_norm":
        m = models.ConvBlock(D, ik, ok, "mean", "gelu", True, bank, use_group_norm=True, key=key)
    elif name in ("resnet", "resnet3d"):
        m = models.ResNet(D, ik, ok, depth=1, num_blocks=1, num_conv=1, equivariant=True, conv_filters=bank, use_group_norm=True, key=key)
    elif name == "dil":
        m = models.DilResNet(D, ik, ok, depth=1, num_blocks=1, equivariant=True, conv_filters=bank, key=key)
    else:
        up = LC.bank(D, 2, [0, 1, 2], [0, 1], "B")
        m = models.UNet(D, ik, ok, depth=1, num_downsamples=1, num_conv=1, equivariant=True, conv_filters=bank, upsample_filters=up,
                        use_group_norm=True, key=key)
    return m, D, in_sig, out_sig


def _optim(name):
    import optax
    return {"sgd": lambda: optax.sgd(0.1), "momentum": lambda: optax.sgd(0.05, momentum=0.9), "adam": lambda: optax.adam(0.01),
            "adamw": lambda: optax.adamw(0.01, weight_decay=0.05), "lion": lambda: optax.lion(0.01, weight_decay=0.02),
            "rmsprop": lambda: optax.rmsprop(0.01), "adagrad": lambda: optax.adagrad(0.1)}[name]()


FREE_PATTERNS = (".weights", ".bias", ".scale", ".vanilla_norm", ".nonlinearity")


def run_cell(cfg, cx):
    if cfg.get("kind") == "equiv":
        # the post-training model: arbitrary free parameters, filter bank = any array with the bank's sign/magnitude pattern
        # (in particular any common rescaling of it) -> equivariant; same machinery as C07, on the models trained here
        from props import C07
        m, D, in_sig, out_sig = _model(cfg["model"])
        c7 = {"cls": "c09:" + cfg["model"], "depth": 1, "act": "-", "norm": "-", "pre": "-", "bias": "-", "sig": "-", "torus": True, "D": D,
              "N": 4, "down": 1, "gs": "generators"}
        C07.run_cell(c7, cx, prebuilt=(m, in_sig, out_sig))
        return
    if cfg.get("kind") == "loop":
        return _run_loop_cell(cfg, cx)
    import jax
    import jax.numpy as jnp
    import equinox as eqx
    import optax
    from jax._src.interpreters import partial_eval as pe
    import ginjax.geometric as geom
    import ginjax.ml as ml
    from ginjax.ml.training import train_step
    from jxsmt import sym as S, interp as I

    m, D, in_sig, out_sig = _model(cfg["model"])
    optim = _optim(cfg["opt"])
    N, B = 4, 2
    ckey = f"model={cfg['model']}:opt={cfg['opt']}:count={cfg['count']}"

    def map_and_loss(model, x, y, aux):
        out = jax.vmap(lambda xx: model(xx)[0])(x)
        return ml.smse_loss(out, y), aux

    params, static = eqx.partition(m, eqx.is_array)
    p_leaves, p_def = jax.tree_util.tree_flatten(params)
    p_paths = [jax.tree_util.keystr(p) for p, _ in jax.tree_util.tree_flatten_with_path(params)[0]]
    # ---- (a) leaf census
    unknown = [p for p in p_paths if "invariant_filters" not in p and not any(t in p for t in FREE_PATTERNS)]
    cx.structural("leaf census: every array leaf is a free parameter or a filter-bank leaf", not unknown,
                  f"unclassified array leaves: {unknown[:5]}", key=f"census:{cfg['model']}")
    ost = optim.init(params)
    osa, oss = eqx.partition(ost, eqx.is_array)
    o_leaves, o_def = jax.tree_util.tree_flatten(osa)
    o_paths = [jax.tree_util.keystr(p) for p, _ in jax.tree_util.tree_flatten_with_path(osa)[0]]
    X = geom.MultiImage({q: jnp.ones((1, B, c) + (N,) * D + (D,) * q[0]) for q, c in in_sig}, D, True)
    Y = geom.MultiImage({q: jnp.ones((1, B, c) + (N,) * D + (D,) * q[0]) for q, c in out_sig}, D, True)
    x_leaves, x_def = jax.tree_util.tree_flatten((X, Y))

    def step(pl, ol, xl):
        model = eqx.combine(jax.tree_util.tree_unflatten(p_def, list(pl)), static)
        o = eqx.combine(jax.tree_util.tree_unflatten(o_def, list(ol)), oss)
        xx, yy = jax.tree_util.tree_unflatten(x_def, list(xl))
        m2, o2, loss, _ = train_step(map_and_loss, model, optim, o, xx, yy, None)
        return (jax.tree_util.tree_leaves(eqx.filter(m2, eqx.is_array)), jax.tree_util.tree_leaves(eqx.filter(o2, eqx.is_array)), loss)

    jp, shp = I.trace_real(step, [p_leaves, o_leaves, x_leaves])
    I.STATS["jaxprs_traced"] += 1
    I.STATS["jaxpr_eqns_total"] += I.count_eqns(jp.jaxpr)
    n_p, n_o, n_x = len(p_leaves), len(o_leaves), len(x_leaves)
    new_p_paths = p_paths
    new_o_paths = [jax.tree_util.keystr(p) for p, _ in jax.tree_util.tree_flatten_with_path(eqx.filter(ost, eqx.is_array))[0]]
    assert len(jp.jaxpr.outvars) == n_p + len(new_o_paths) + 1, (len(jp.jaxpr.outvars), n_p, len(new_o_paths))
    filt_idx = [i for i, p in enumerate(p_paths) if "invariant_filters" in p]
    mom_idx = [i for i, p in enumerate(new_o_paths) if "invariant_filters" in p]
    in_names = [f"param{p}" for p in p_paths] + [f"opt{p}" for p in o_paths] + [f"data[{i}]" for i in range(n_x)]
    for fi in filt_idx:
        fpath = p_paths[fi]
        outs_wanted = [fi] + [n_p + j for j in mom_idx if new_o_paths[j].endswith(fpath)]
        used = [i in outs_wanted for i in range(len(jp.jaxpr.outvars))]
        dj, used_in = pe.dce_jaxpr(jp.jaxpr, used)
        deps = [in_names[i] for i, u in enumerate(used_in) if u]
        own_moments = [i for i, p in enumerate(o_paths) if p.endswith(fpath)]
        allowed = {fi} | {n_p + i for i in own_moments} | {n_p + i for i, p in enumerate(o_paths) if "count" in p or "invariant_filters" not in p and
                                                          o_leaves[i].ndim == 0}
        bad = [in_names[i] for i, u in enumerate(used_in) if u and i not in allowed]

        def replay_dep(vals, bvals, fi=fi):
            return _concrete_step(cfg, m, optim, map_and_loss, in_sig, out_sig, D, N, B, fi, train_step)
        cx.structural(f"new {fpath} depends only on itself, its own moments and the step count", not bad,
                      f"also depends on {bad[:6]} (d loss/d filters is not identically zero, or the optimiser mixes leaves)",
                      replay=replay_dep, key=f"deps:{ckey}:{fpath}")
        if bad:
            continue
        # ---- symbolic execution of the slice
        F = S.var_array("F", p_leaves[fi].shape)
        args = []
        for i, u in enumerate(used_in):
            if not u:
                continue
            if i == fi:
                args.append(F)
            elif i - n_p in own_moments:
                args.append(jnp.zeros_like(o_leaves[i - n_p]))      # invariant: zero moments on the filter bank
            elif i >= n_p and i < n_p + n_o:
                leaf = o_leaves[i - n_p]
                args.append(jnp.asarray(cfg["count"], dtype=leaf.dtype) if leaf.ndim == 0 and jnp.issubdtype(leaf.dtype, jnp.integer) else leaf)
            else:
                args.append((p_leaves + o_leaves + x_leaves)[i])
        outs = I.run_jaxpr(dj, list(jp.consts) if len(dj.constvars) == len(jp.consts) else [c for c, v in zip(jp.consts, jp.jaxpr.constvars) if v in dj.constvars],
                           args)
        I.STATS["dce_slices_executed"] += 1
        newF = outs[0]
        if not I.is_sym(newF):
            cx.structural(f"new {fpath} is a function of the filter bank", False, "new filter leaf is a constant", key=f"const:{ckey}:{fpath}")
            continue
        flatF = F.a.reshape(-1)
        flatN = newF.a.reshape(-1)
        lhs = np.array([flatN[i] * flatF[0] for i in range(flatF.size)], dtype=object)
        rhs = np.array([flatN[0] * flatF[i] for i in range(flatF.size)], dtype=object)

        def replay(vals, bvals, fi=fi):
            return _concrete_step(cfg, m, optim, map_and_loss, in_sig, out_sig, D, N, B, fi, train_step)
        cx.equal(f"new {fpath} is a common rescaling of the old one", lhs, rhs, replay=replay, key=f"rescale:{ckey}:{fpath}")
        if cfg["opt"] in ("sgd", "momentum", "adam", "rmsprop", "adagrad"):
            cx.equal(f"new {fpath} equals the old one ({cfg['opt']}: no weight decay)", newF, F, replay=replay, key=f"same:{ckey}:{fpath}")
        for j, o in enumerate(outs[1:]):
            if I.is_sym(o):
                cx.equal(f"new optimiser moment {j} of {fpath} stays zero", o, np.zeros(o.shape, dtype=object) + S.ZERO, key=f"moment:{ckey}:{fpath}:{j}",
                         replay=replay)
            else:
                cx.structural(f"new optimiser moment {j} of {fpath} stays zero", bool(np.all(np.asarray(o) == 0)), "non-zero moment", key=f"moment:{ckey}:{fpath}:{j}")
        if fi == filt_idx[0]:
            cx.canary("canary[new filters equal twice the old ones]", newF, F.a * 2)


def _same_module(opt_path, param_path):
    """opt-state path ...<module path>.invariant_filters... belongs to the parameter leaf with that module path"""
    pm = param_path.split(".invariant_filters")[0]
    return pm in opt_path


def _concrete_step(cfg, m, optim, map_and_loss, in_sig, out_sig, D, N, B, fi, train_step):
    """Replay: the real train_step on seeded float data, parameters perturbed away from initialisation; reports whether some
    filter leaf of the new model is NOT a common rescaling of the old one."""
    import jax
    import jax.numpy as jnp
    import equinox as eqx
    import ginjax.geometric as geom
    rng = np.random.RandomState(0)
    params, static = eqx.partition(m, eqx.is_array)
    leaves, tdef = jax.tree_util.tree_flatten(params)
    paths = [jax.tree_util.keystr(p) for p, _ in jax.tree_util.tree_flatten_with_path(params)[0]]
    new_leaves = [l if "invariant_filters" in p else l + jnp.asarray(rng.normal(size=l.shape), dtype=l.dtype) * 0.3 for l, p in zip(leaves, paths)]
    model = eqx.combine(jax.tree_util.tree_unflatten(tdef, new_leaves), static)
    X = geom.MultiImage({q: jnp.asarray(rng.normal(size=(1, B, c) + (N,) * D + (D,) * q[0]), dtype=jnp.float32) for q, c in in_sig}, D, True)
    Y = geom.MultiImage({q: jnp.asarray(rng.normal(size=(1, B, c) + (N,) * D + (D,) * q[0]), dtype=jnp.float32) for q, c in out_sig}, D, True)
    ost = optim.init(eqx.filter(model, eqx.is_array))
    worst, where = 0.0, None
    for _ in range(2):
        m2, ost, loss, _ = train_step(map_and_loss, model, optim, ost, X, Y, None)
        old = jax.tree_util.tree_leaves(eqx.filter(model, eqx.is_array))
        new = jax.tree_util.tree_leaves(eqx.filter(m2, eqx.is_array))
        for o, n, p in zip(old, new, paths):
            if "invariant_filters" not in p:
                continue
            o, n = np.asarray(o, dtype=np.float64).reshape(-1), np.asarray(n, dtype=np.float64).reshape(-1)
            c = float(n @ o) / float(o @ o)
            dev = float(np.max(np.abs(n - c * o)))
            if dev > worst:
                worst, where = dev, p
        model = m2
    return worst > 1e-6, f"after 2 real train_steps ({cfg['opt']}) filter leaf {where} deviates from any common rescaling of its old value by {worst:.3g}"


def _run_loop_cell(cfg, cx):
    """The whole ml.train loop (get_batches, every train_step of every epoch, validation pass, best_model hand-back) traced as ONE jaxpr with the
    EpochStop condition; the slice of the RETURNED model's filter leaves is executed symbolically."""
    import jax
    import jax.numpy as jnp
    import equinox as eqx
    from jax._src.interpreters import partial_eval as pe
    import ginjax.geometric as geom
    import ginjax.ml as ml
    from jxsmt import sym as S, interp as I

    m, D, in_sig, out_sig = _model(cfg["model"])
    optim = _optim(cfg["opt"])
    N, B, L, E = 4, 2, 4, cfg["count"]
    ckey = f"loop:model={cfg['model']}:opt={cfg['opt']}:epochs={E}:val={cfg['val']}"

    def map_and_loss(model, x, y, aux):
        out = jax.vmap(lambda xx: model(xx)[0])(x)
        return ml.smse_loss(out, y), aux

    params, static = eqx.partition(m, eqx.is_array)
    p_leaves, p_def = jax.tree_util.tree_flatten(params)
    p_paths = [jax.tree_util.keystr(p) for p, _ in jax.tree_util.tree_flatten_with_path(params)[0]]

    def data(n):
        X = geom.MultiImage({q: jnp.ones((n, c) + (N,) * D + (D,) * q[0]) for q, c in in_sig}, D, True)
        Y = geom.MultiImage({q: jnp.ones((n, c) + (N,) * D + (D,) * q[0]) for q, c in out_sig}, D, True)
        return X, Y
    X, Y = data(L)
    VX, VY = data(2) if cfg["val"] else (None, None)
    x_leaves, x_def = jax.tree_util.tree_flatten((X, Y, VX, VY))
    box = {}

    def loop(pl, xl):
        model = eqx.combine(jax.tree_util.tree_unflatten(p_def, list(pl)), static)
        xx, yy, vx, vy = jax.tree_util.tree_unflatten(x_def, list(xl))
        out_model, _, el, vl = ml.train(xx, yy, map_and_loss, model, jax.random.PRNGKey(3), ml.EpochStop(E, verbose=0), B, optim, vx, vy)
        op, ostatic = eqx.partition(out_model, eqx.is_array)
        box["paths"] = [jax.tree_util.keystr(p) for p, _ in jax.tree_util.tree_flatten_with_path(op)[0]]
        box["same_static"] = jax.tree_util.tree_structure(out_model) == jax.tree_util.tree_structure(model)
        return jax.tree_util.tree_leaves(op), el

    jp, shp = I.trace_real(loop, [p_leaves, x_leaves])
    I.STATS["jaxprs_traced"] += 1
    I.STATS["jaxpr_eqns_total"] += I.count_eqns(jp.jaxpr)
    cx.structural("ml.train hands back a model with the array-leaf structure of the model it was given", bool(box["same_static"]) and box["paths"] == p_paths,
                  f"returned leaves {box['paths'][:4]}... vs {p_paths[:4]}...", key=f"struct:{ckey}")
    if box["paths"] != p_paths:
        return
    n_p, n_x = len(p_leaves), len(x_leaves)
    in_names = [f"param{p}" for p in p_paths] + [f"data[{i}]" for i in range(n_x)]
    filt_idx = [i for i, p in enumerate(p_paths) if "invariant_filters" in p]
    for fi in filt_idx:
        fpath = p_paths[fi]
        used = [i == fi for i in range(len(jp.jaxpr.outvars))]
        dj, used_in = pe.dce_jaxpr(jp.jaxpr, used)
        bad = [in_names[i] for i, u in enumerate(used_in) if u and i != fi]

        def replay(vals, bvals, fi=fi):
            return _concrete_loop(cfg, m, optim, map_and_loss, in_sig, out_sig, D, N, B, L, E)
        cx.structural(f"ml.train: returned {fpath} depends only on the initial {fpath}", not bad,
                      f"also depends on {bad[:6]}", replay=replay, key=f"loopdeps:{ckey}:{fpath}")
        if bad:
            continue
        F = S.var_array("F", p_leaves[fi].shape)
        args = [F if i == fi else (p_leaves + x_leaves)[i] for i, u in enumerate(used_in) if u]
        consts = list(jp.consts) if len(dj.constvars) == len(jp.consts) else [c for c, v in zip(jp.consts, jp.jaxpr.constvars) if v in dj.constvars]
        outs = I.run_jaxpr(dj, consts, args)
        I.STATS["dce_slices_executed"] += 1
        newF = outs[0]
        if not I.is_sym(newF):
            cx.structural(f"ml.train: returned {fpath} is a function of the initial filter bank", False, "returned filter leaf is a constant", key=f"loopconst:{ckey}:{fpath}",
                          replay=replay)
            continue
        flatF, flatN = F.a.reshape(-1), newF.a.reshape(-1)
        lhs = np.array([flatN[i] * flatF[0] for i in range(flatF.size)], dtype=object)
        rhs = np.array([flatN[0] * flatF[i] for i in range(flatF.size)], dtype=object)
        cx.equal(f"ml.train: returned {fpath} is a common rescaling of the initial one", lhs, rhs, replay=replay, key=f"looprescale:{ckey}:{fpath}")
        if cfg["opt"] in ("sgd", "momentum", "adam", "rmsprop", "adagrad"):
            cx.equal(f"ml.train: returned {fpath} equals the initial one ({cfg['opt']}: no weight decay)", newF, F, replay=replay, key=f"loopsame:{ckey}:{fpath}")
        if fi == filt_idx[0]:
            cx.canary("canary[ml.train returns twice the initial filters]", newF, F.a * 2)


def _concrete_loop(cfg, m, optim, map_and_loss, in_sig, out_sig, D, N, B, L, E):
    """Replay: the real ml.train on seeded float data; reports whether some filter leaf of the returned model is not a common rescaling of
    the initial one."""
    import jax
    import jax.numpy as jnp
    import equinox as eqx
    import ginjax.geometric as geom
    import ginjax.ml as ml
    rng = np.random.RandomState(1)
    params, static = eqx.partition(m, eqx.is_array)
    leaves, tdef = jax.tree_util.tree_flatten(params)
    paths = [jax.tree_util.keystr(p) for p, _ in jax.tree_util.tree_flatten_with_path(params)[0]]
    new_leaves = [l if "invariant_filters" in p else l + jnp.asarray(rng.normal(size=l.shape), dtype=l.dtype) * 0.3 for l, p in zip(leaves, paths)]
    model = eqx.combine(jax.tree_util.tree_unflatten(tdef, new_leaves), static)

    def data(n):
        X = geom.MultiImage({q: jnp.asarray(rng.normal(size=(n, c) + (N,) * D + (D,) * q[0]), dtype=jnp.float32) for q, c in in_sig}, D, True)
        Y = geom.MultiImage({q: jnp.asarray(rng.normal(size=(n, c) + (N,) * D + (D,) * q[0]), dtype=jnp.float32) for q, c in out_sig}, D, True)
        return X, Y
    X, Y = data(L)
    VX, VY = data(2) if cfg["val"] else (None, None)
    out_model, _, _, _ = ml.train(X, Y, map_and_loss, model, jax.random.PRNGKey(3), ml.EpochStop(max(E, 2), verbose=0), B, optim, VX, VY)
    new = jax.tree_util.tree_leaves(eqx.filter(out_model, eqx.is_array))
    if len(new) != len(new_leaves):
        return True, "returned model has a different set of array leaves"
    worst, where = 0.0, None
    for o, n, p in zip(new_leaves, new, paths):
        if "invariant_filters" not in p:
            continue
        o, n = np.asarray(o, dtype=np.float64).reshape(-1), np.asarray(n, dtype=np.float64).reshape(-1)
        if o.shape != n.shape:
            return True, f"filter leaf {p} changed shape"
        c = float(n @ o) / float(o @ o)
        dev = float(np.max(np.abs(n - c * o)))
        if dev > worst:
            worst, where = dev, p
    return worst > 1e-6, f"after the real ml.train ({cfg['opt']}, {max(E, 2)} epochs) filter leaf {where} deviates from any common rescaling of its initial value by {worst:.3g}"
