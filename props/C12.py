"""C12 — multi-image arithmetic pairs blocks by type, whatever their storage history."""
from __future__ import annotations

import itertools
import random

import numpy as np

INFO = {
    "explanation": "MultiImage operands are built inside the traced function through enumerated construction histories (insertion order, "
                   "constructor/append, jit / vmap / tree_flatten round trips, concat+split, from_vector, copy) from symbolic blocks (every "
                   "entry and the scalar a z3 Real); the real __add__/__sub__/__mul__/__truediv__ are executed symbolically and z3 decides "
                   "(a op b)[t] = a[t] op b[t] for every type t.  Operands with different type sets must raise.  __eq__ branches in Python on "
                   "jnp.allclose, so its paths are explored by re-running the real method with allclose scripted over all 2^n answers on "
                   "identity-tagged blocks; z3 proves the recorded truth table equivalent to 'same D, flags, key set and every type-wise "
                   "comparison close'.",
    "functions": ["MultiImage.__add__", "__sub__", "__mul__", "__truediv__", "__eq__", "to_vector", "from_vector", "append", "concat",
                  "concat_inverse", "copy", "tree_flatten", "tree_unflatten"],
    "bounds": {
        "quick": "d=2, N=2; type sets of <=3 types incl. equal-sized blocks ((0,0)x2 vs (1,0)x1; (1,0)x1 vs (1,1)x1) and unequal; every insertion "
                 "order of both operands; 9 construction histories, chains <=2 (seeded); 1 and 2 leading axes; ops +,-,*s,/s",
        "thorough": "all pairs of insertion orders x all single histories x all ops, chains of 2 seeded (600 cells); d=3 N=2",
    },
    "outside": ["float32 rounding; tolerance semantics of allclose itself"],
    "assumptions": ["division by the scalar assumes it non-zero (recip atom)"],
}

TYPESETS = [
    [((0, 0), 2), ((1, 0), 1)],                 # equal block sizes in d=2
    [((1, 0), 1), ((1, 1), 1)],                 # equal shapes
    [((0, 0), 1), ((0, 1), 1), ((1, 0), 2)],    # three types, two of equal shape
    [((0, 0), 1), ((2, 0), 1)],                 # different sizes
    [((0, 1), 3)],
]
HISTS = ["ctor", "append", "jit", "vmap", "flatten", "concat_split", "from_vector", "copy", "from_images"]
OPS = ["add", "sub", "mul", "div"]


def cells(tier, seed):
    rng = random.Random(seed + 12)
    out = []
    def mk(ts, oa, ob, ha, hb, op, lead=1, D=2):
        return {"D": D, "ts": ts, "oa": list(oa), "ob": list(ob), "ha": list(ha), "hb": list(hb), "op": op, "lead": lead}
    allc = []
    for ti, ts in enumerate(TYPESETS):
        n = len(ts)
        perms = list(itertools.permutations(range(n)))
        for oa, ob in itertools.product(perms, perms):
            for ha, hb in itertools.product(HISTS, HISTS):
                for op in OPS:
                    allc.append(mk(ti, oa, ob, [ha], [hb], op))
    core = []
    # every (order pair) with plain constructors and every op; every history on one side with swapped orders
    for ti, ts in enumerate(TYPESETS):
        n = len(ts)
        perms = list(itertools.permutations(range(n)))
        for oa, ob in itertools.product(perms, perms):
            core.append(mk(ti, oa, ob, ["ctor"], ["ctor"], "add" if (sum(oa) + len(ob)) % 2 else "sub"))
        for h in HISTS:
            core.append(mk(ti, perms[0], perms[-1], [h], ["ctor"], "add"))
            core.append(mk(ti, perms[-1], perms[0], ["ctor"], [h], "sub"))
            core.append(mk(ti, perms[-1], perms[-1], [h], ["ctor"], "mul"))
            core.append(mk(ti, perms[-1], perms[-1], [h], ["ctor"], "div"))
    extra = rng.sample(allc, 80 if tier == "quick" else 500)
    chains = []
    for _ in range(40 if tier == "quick" else 300):
        ti = rng.randrange(len(TYPESETS))
        n = len(TYPESETS[ti])
        perms = list(itertools.permutations(range(n)))
        chains.append(mk(ti, rng.choice(perms), rng.choice(perms), [rng.choice(HISTS), rng.choice(HISTS)],
                         [rng.choice(HISTS), rng.choice(HISTS)], rng.choice(OPS), lead=rng.choice([1, 2])))
    if tier == "thorough":
        for c in rng.sample(allc, 100):
            c3 = dict(c)
            c3["D"] = 3
            chains.append(c3)
    seen, res = set(), []
    for c in core + extra + chains:
        k = repr(sorted(c.items()))
        if k not in seen:
            seen.add(k)
            res.append(c)
    for ti in range(len(TYPESETS)):
        res.append({"D": 2, "ts": ti, "special": "eq", "oa": [], "ob": [], "ha": [], "hb": [], "op": "eq", "lead": 1})
    res.append({"D": 2, "ts": 0, "special": "reject", "oa": [], "ob": [], "ha": [], "hb": [], "op": "reject", "lead": 1})
    return res


def exhaustive(tier):
    return False


def _construct(geom, jax, jnp, D, blocks, order, hist, lead):
    """Build a MultiImage from {type: array} inserting in `order`, then apply the history steps."""
    types = list(blocks)
    ordered = [types[i] for i in order]
    first = hist[0]
    if first == "append":
        m = geom.MultiImage({}, D, True)
        for (k, p) in ordered:
            m.append(k, p, blocks[(k, p)])
    elif first == "from_images" and lead == 1:
        imgs = []
        for (k, p) in ordered:
            for c in range(blocks[(k, p)].shape[0]):
                imgs.append(geom.GeometricImage(blocks[(k, p)][c], p, D, True))
        m = geom.MultiImage.from_images(imgs)
    else:
        m = geom.MultiImage({t: blocks[t] for t in ordered}, D, True)
    for h in hist:
        if h in ("ctor", "append", "from_images"):
            continue
        if h == "jit":
            m = jax.jit(lambda q: q)(m)
        elif h == "vmap":
            if lead == 2:
                m = jax.vmap(lambda q: q)(m)
            else:  # no common batch axis: map over a fresh unit axis and drop it again
                m = jax.tree_util.tree_map(lambda x: x[0], jax.vmap(lambda q: q)(jax.tree_util.tree_map(lambda x: x[None], m)))
        elif h == "flatten":
            leaves, td = jax.tree_util.tree_flatten(m)
            m = jax.tree_util.tree_unflatten(td, leaves)
        elif h == "concat_split":
            sig = m.get_signature()
            both = m.concat(m, axis=lead - 1)
            a_part, b_part = both.concat_inverse(sig, axis=lead - 1)
            m = b_part
        elif h == "from_vector":
            m = geom.MultiImage.from_vector(m.to_vector(), m)
        elif h == "copy":
            m = m.copy()
        else:
            raise ValueError(h)
    return m


def run_cell(cfg, cx):
    import jax
    import jax.numpy as jnp
    import ginjax.geometric as geom
    from jxsmt import sym as S, interp as I

    D = cfg["D"]
    ts = [(tuple(kp), c) for kp, c in TYPESETS[cfg["ts"]]]
    N = 2
    lead = cfg["lead"]
    if cfg.get("special") == "eq":
        _eq_paths(cfg, cx, ts)
        return
    if cfg.get("special") == "reject":
        _reject(cfg, cx)
        return
    shp = lambda k, c: ((3,) if lead == 2 else ()) + (c,) + (N,) * D + (D,) * k
    a = {kp: S.var_array(f"a{kp[0]}{kp[1]}", shp(kp[0], c)) for kp, c in ts}
    b = {kp: S.var_array(f"b{kp[0]}{kp[1]}", shp(kp[0], c)) for kp, c in ts}
    s = S.var_array("s", ())
    op = cfg["op"]
    meta = {}

    def run(ab, bb, sv):
        ma = _construct(geom, jax, jnp, D, ab, cfg["oa"], cfg["ha"], lead)
        mb = _construct(geom, jax, jnp, D, bb, cfg["ob"], cfg["hb"], lead)
        if op == "add":
            r = ma + mb
        elif op == "sub":
            r = ma - mb
        elif op == "mul":
            r = ma * sv
        else:
            r = ma / sv
        meta["keys"] = sorted(r.keys())
        meta["D"], meta["is_torus"] = r.D, r.is_torus
        return dict(r.data)

    ckey = f"ts={cfg['ts']}:oa={cfg['oa']}:ob={cfg['ob']}:ha={cfg['ha']}:hb={cfg['hb']}:lead={lead}:D={D}"
    out = I.sym_call(run, a, b, s)
    cx.structural("result types", meta["keys"] == sorted(kp for kp, _ in ts) and meta["D"] == D,
                  f"result keys {meta['keys']} expected {sorted(kp for kp, _ in ts)}", key=f"keys:{op}:{ckey}")
    for kp, c in ts:
        if op == "add":
            exp = a[kp].a + b[kp].a
        elif op == "sub":
            exp = a[kp].a - b[kp].a
        elif op == "mul":
            exp = a[kp].a * s.a[()]
        else:
            exp = a[kp].a * S.recip(s.a[()])

        def replay(vals, bvals, kp=kp):
            av = {q: jnp.asarray(cx.conc(v, vals)) for q, v in a.items()}
            bv = {q: jnp.asarray(cx.conc(v, vals)) for q, v in b.items()}
            sv = float(vals.get("s", 1.0)) or 1.0
            r = run(av, bv, jnp.float32(sv))
            e = {"add": av[kp] + bv[kp], "sub": av[kp] - bv[kp], "mul": av[kp] * sv, "div": av[kp] / sv}[op]
            return cx.deviates(np.asarray(r[kp]), np.asarray(e))
        if kp in out:
            cx.equal(f"{op}[{kp}]", out[kp], exp, replay=replay, key=f"{op}:t={kp}:{ckey}")
    # canary: the block of the first type declared equal to a wrong combination
    kp0 = ts[0][0]
    if kp0 in out:
        wrong = a[kp0].a + b[kp0].a * 2 if op in ("add", "sub") else a[kp0].a * (s.a[()] + 1)
        cx.canary("canary[wrong combination]", out[kp0], wrong)


def _reject(cfg, cx):
    import jax.numpy as jnp
    import ginjax.geometric as geom
    D, N = 2, 2
    mk = lambda types: geom.MultiImage({(k, p): jnp.ones((c,) + (N,) * D + (D,) * k) for (k, p), c in types}, D, True)
    pairs = [
        ([((0, 0), 2)], [((1, 0), 1)]),                       # same total size, different types
        ([((0, 0), 1), ((1, 0), 1)], [((0, 0), 1)]),
        ([((1, 0), 1)], [((1, 1), 1)]),                       # same shape, different parity
        ([((0, 0), 2), ((1, 0), 1)], [((0, 0), 2), ((1, 1), 1)]),
    ]
    # every ordered pair of distinct non-empty type sets over a small universe (subset, superset, overlapping, disjoint - both directions)
    import itertools
    uni = [((0, 0), 1), ((1, 0), 1), ((1, 1), 1)]
    subsets = [list(c) for r in (1, 2, 3) for c in itertools.combinations(uni, r)]
    pairs = pairs + [(list(reversed(tb_)), ta_) for ta_, tb_ in pairs] + [(x, y) for x in subsets for y in subsets if x != y]
    for ta, tb in pairs:
        try:
            same = bool(mk(ta) == mk(tb))
        except Exception as e:  # noqa: BLE001
            same = f"raised {type(e).__name__}"
        cx.structural(f"eq-different-types[{ta},{tb}]", same is False, f"a == b returned {same} for operands holding different type sets",
                      key=f"reject:eq:{ta}:{tb}")
        for nm, f in (("add", lambda x, y: x + y), ("sub", lambda x, y: x - y)):
            try:
                f(mk(ta), mk(tb))
                ok, det = False, "combined operands with different type sets without raising"
            except (AssertionError, KeyError, ValueError, TypeError) as e:
                ok, det = True, type(e).__name__
            cx.structural(f"reject[{nm},{ta},{tb}]", ok, det, key=f"reject:{nm}:{ta}:{tb}")
    # different D / flags
    a = geom.MultiImage({(0, 0): jnp.ones((1, 2, 2))}, 2, True)
    b = geom.MultiImage({(0, 0): jnp.ones((1, 2, 2))}, 2, (True, False))
    try:
        a + b
        ok = False
    except AssertionError:
        ok = True
    cx.structural("reject[flags differ]", ok, "operands with different is_torus were combined")


def _eq_paths(cfg, cx, ts):
    """Explore the Python-level paths of MultiImage.__eq__ with jnp.allclose scripted."""
    import jax.numpy as jnp
    import ginjax.geometric as geom
    import ginjax.geometric.multi_image as mi_mod
    from jxsmt import sym as S
    D, N = cfg["D"], 2
    n = len(ts)
    types = [kp for kp, _ in ts]
    rows = []
    typewise = True

    def run_script(order_b, script):
        a_blocks = {kp: jnp.full((c,) + (N,) * D + (D,) * kp[0], float(i + 1)) for i, (kp, c) in enumerate(ts)}
        b_blocks = {kp: jnp.full((c,) + (N,) * D + (D,) * kp[0], float(i + 1)) for i, (kp, c) in enumerate(ts)}
        a = geom.MultiImage(a_blocks, D, True)
        b = geom.MultiImage({types[i]: b_blocks[types[i]] for i in order_b}, D, True)
        ida = {id(v): kp for kp, v in a.data.items()}
        idb = {id(v): kp for kp, v in b.data.items()}

        def fake(x, y, *args, **kw):
            tx, ty = ida.get(id(x)), idb.get(id(y))
            if tx is None or ty is None or tx != ty:
                return jnp.asarray(False)
            return jnp.asarray(script[types.index(tx)])
        real = mi_mod.jnp.allclose
        mi_mod.jnp.allclose = fake
        try:
            return bool(a == b)
        finally:
            mi_mod.jnp.allclose = real

    def replay_table(vals, bvals):
        script = tuple(bool(bvals.get(f"close{i}", False)) for i in range(n))
        for order_b in itertools.permutations(range(n)):
            got = run_script(order_b, script)
            if got != all(script):
                return True, f"a == b returned {got} with type-wise allclose answers {dict(zip(types, script))} (second operand order {order_b})"
        return False, "the real __eq__ agrees with the specification under this script"
    for order_b in itertools.permutations(range(n)):
        for script in itertools.product([True, False], repeat=n):
            a_blocks = {kp: jnp.full((c,) + (N,) * D + (D,) * kp[0], float(i + 1)) for i, (kp, c) in enumerate(ts)}
            b_blocks = {kp: jnp.full((c,) + (N,) * D + (D,) * kp[0], float(i + 1)) for i, (kp, c) in enumerate(ts)}
            a = geom.MultiImage(a_blocks, D, True)
            b = geom.MultiImage({types[i]: b_blocks[types[i]] for i in order_b}, D, True)
            ida = {id(v): kp for kp, v in a.data.items()}
            idb = {id(v): kp for kp, v in b.data.items()}
            seen = []

            def fake_allclose(x, y, *args, **kw):
                tx, ty = ida.get(id(x)), idb.get(id(y))
                seen.append((tx, ty))
                if tx is None or ty is None or tx != ty:
                    return jnp.asarray(False)
                return jnp.asarray(script[types.index(tx)])
            real = mi_mod.jnp.allclose
            mi_mod.jnp.allclose = fake_allclose
            try:
                res = bool(a == b)
            finally:
                mi_mod.jnp.allclose = real
            if any(tx is None or ty is None or tx != ty for tx, ty in seen):
                typewise = False
            rows.append((order_b, script, res))
    cx.structural(f"eq comparisons are type-wise [ts={cfg['ts']}]", typewise, "a block was compared with a block of another type (or a derived array)",
                  key=f"eq:typewise:ts={cfg['ts']}")
    # propositional equivalence, decided by z3: table(script) <-> AND_t close_t
    close = [S.CTX.bvar(f"close{i}") for i in range(n)]
    spec = S.band(*close)
    goal = S.TRUE
    table = S.FALSE
    for ob in sorted({o for o, _, _ in rows}):   # one truth table per insertion order of the second operand: each must be the conjunction
        table = S.FALSE
        for o, script, res in rows:
            if o == ob and res:
                table = S.bor(table, S.band(*[c if v else S.bnot(c) for c, v in zip(close, script)]))
        goal = S.band(goal, S.bor(S.band(table, spec), S.band(S.bnot(table), S.bnot(spec))))
    cx.holds(f"eq truth table == conjunction of type-wise closeness [ts={cfg['ts']}]", goal, key=f"eq:table:ts={cfg['ts']}",
             replay=replay_table)
    cx.holds("canary[eq == disjunction]", S.bor(S.band(table, S.bor(*close)), S.band(S.bnot(table), S.bnot(S.bor(*close)))), canary=True) if n > 1 else None
    # different key sets / D / flags are unequal; non-MultiImage is unequal
    a = geom.MultiImage({kp: jnp.ones((c,) + (N,) * D + (D,) * kp[0]) for kp, c in ts}, D, True)
    b = geom.MultiImage({kp: jnp.ones((c,) + (N,) * D + (D,) * kp[0]) for kp, c in ts[:-1]}, D, True) if n > 1 else geom.MultiImage({}, D, True)
    c = geom.MultiImage(dict(a.data), D, (True, False))
    cx.structural("eq: different key sets unequal", not (a == b) and not (b == a), "multi-images with different type sets compare equal")
    cx.structural("eq: different flags unequal", not (a == c), "multi-images with different is_torus compare equal")
    cx.structural("eq: reflexive", bool(a == a.copy()), "a != copy(a)")
    import jax
    rev = geom.MultiImage({kp: a[kp] for kp in reversed(list(a.keys()))}, D, True)
    cx.structural("eq: independent of insertion order and of pytree flattening",
                  bool(a == rev) and bool(rev == a) and bool(rev == jax.jit(lambda q: q)(rev)) and bool(jax.tree_util.tree_map(lambda v: v, rev) == rev),
                  "the same blocks compare unequal after re-insertion in another order / a jit or tree_map round trip",
                  key=f"eq:order:ts={cfg['ts']}")
    cx.structural("eq: other classes", not (a == 3), "MultiImage == int")
