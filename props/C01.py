"""C01 — convolution commutes with the symmetry group (rotations, reflections, shifts)."""
from __future__ import annotations

import itertools

import numpy as np

from props.common import group_elements, gkey, gmat, perm_axes, sample_cells

INFO = {
    "explanation": "geom.convolve / GeometricImage.convolve_with are traced to jaxprs and executed symbolically with every "
                   "image and filter entry a z3 Real; the group action on both sides of (g.A)*(g.C) = g.(A*C) is a "
                   "harness-side reference action (exact rational centres), per-axis options travel with their axes; "
                   "cyclic shifts on toroidal axes likewise.",
    "functions": ["geom.convolve", "geom.convolve_ravel", "geom.get_torus_expanded", "geom.get_same_padding",
                  "geom.pre_tensor_product_expand", "lax.conv_general_dilated (native rule, cross-validated)",
                  "GeometricImage.convolve_with", "GeometricImage.times_group_element"],
    "bounds": {
        "quick": "d=2: shapes (4,4),(3,5); filters (3,3),(2,2),(3,1); k+k'<=3; 7 boundary modes; rhs_dilation 1,2; lhs_dilation off/2; "
                 "all 8 g; all shifts; core + seeded sample.  d=3: shape (3,3,3)/(2,3,4), k,k'<=1, 4 generators (incl. both 3-cycle directions)",
        "thorough": "d=2: shapes (4,4),(3,5),(2,5),(3,4),(5,5); filters (3,3),(2,2),(3,1),(1,1),(2,3),(5,5); k+k'<=4; all modes; all 8 g; "
                    "d=3: (3,3,3),(2,3,4); k+k'<=2; all 48 g",
    },
    "outside": ["stride != 1 (as the property states)", "asymmetric explicit padding", "float32 rounding"],
    "assumptions": ["real arithmetic; float constants at their exact binary value"],
}

MODES = ["torus", "torus_str", "mixed", "same", "valid", "explicit", "int"]


def _opts(cfg):
    D = cfg["D"]
    mode = cfg["mode"]
    f = cfg["fshape"]
    if mode == "torus":
        is_torus, padding = (True,) * D, None
    elif mode == "torus_str":
        is_torus, padding = (True,) * D, "TORUS"
    elif mode == "mixed":
        is_torus, padding = tuple(i % 2 == 0 for i in range(D)), "TORUS"
    elif mode == "same":
        is_torus, padding = (False,) * D, None
    elif mode == "valid":
        is_torus, padding = (True,) * D, "VALID"
    elif mode == "explicit":
        is_torus, padding = (False,) * D, tuple((1 + (i % 2), 1 + (i % 2)) for i in range(D))
    elif mode == "int":
        is_torus, padding = (True,) * D, 1
    else:
        raise ValueError(mode)
    return is_torus, padding


def _valid_cfg(cfg):
    even = any(m % 2 == 0 for m in cfg["fshape"])
    if even and cfg["mode"] in ("torus", "torus_str", "mixed", "same"):
        return False
    # image dilation with a string padding mode: the code prints a warning (it recommends literal padding) but computes; the
    # statement covers it (symmetric 'same' / toroidal treatment, "every image dilation")
    # output must be non-empty
    D = cfg["D"]
    for d in range(D):
        n = cfg["shape"][d]
        if cfg["ldil"] is not None:
            n = (n - 1) * cfg["ldil"][d] + 1
        eff = (cfg["fshape"][d] - 1) * cfg["rdil"][d] + 1
        if cfg["mode"] == "valid" and n < eff:
            return False
        if cfg["mode"] == "explicit" and n + 2 * (1 + d % 2) < eff:
            return False
        if cfg["mode"] == "int" and n + 2 < eff:
            return False
    return True


def cells(tier, seed):
    out = []
    def mk(D, shape, k, kp, fshape, mode, rdil, ldil, obj=False, p=0, pp=0, gs="all"):
        return {"D": D, "shape": tuple(shape), "k": k, "kp": kp, "fshape": tuple(fshape), "mode": mode,
                "rdil": tuple(rdil), "ldil": None if ldil is None else tuple(ldil), "obj": obj, "p": p, "pp": pp, "gs": gs}
    core = [
        mk(2, (4, 4), 1, 1, (3, 3), "torus", (1, 1), None),
        mk(2, (3, 5), 1, 1, (3, 3), "mixed", (1, 1), None),
        mk(2, (3, 5), 0, 1, (3, 1), "same", (1, 2), None),
        mk(2, (4, 4), 1, 0, (2, 2), "valid", (1, 1), None),
        mk(2, (3, 5), 2, 0, (3, 3), "explicit", (2, 1), None),
        mk(2, (3, 4), 0, 1, (3, 3), "explicit", (1, 1), (2, 2)),
        mk(2, (3, 3), 1, 1, (2, 2), "int", (1, 1), (2, 1)),
        mk(2, (4, 4), 1, 2, (3, 3), "torus_str", (1, 1), None),
        mk(2, (4, 4), 0, 0, (3, 3), "torus", (2, 2), None),
        mk(2, (3, 4), 1, 0, (3, 3), "same", (1, 1), (2, 2)),      # image dilation with zero 'same' padding
        mk(2, (3, 3), 0, 1, (3, 3), "torus", (1, 1), (2, 1)),     # image dilation on a torus (equivariance only, no translations)
        mk(2, (2, 3), 0, 0, (3, 1), "mixed", (1, 2), (1, 3)),
        mk(3, (2, 2, 3), 0, 1, (3, 3, 3), "same", (1, 1, 1), (2, 2, 2), gs="generators" if tier == "quick" else "all"),
        mk(2, (3, 4), 0, 1, (3, 3), "torus", (4, 1), None),       # halo larger than the image side (several periods)
        mk(2, (3, 3), 1, 0, (3, 3), "mixed", (5, 5), None),
        mk(2, (4, 4), 1, 1, (3, 3), "torus", (1, 1), None, obj=True, p=0, pp=1),
        mk(2, (3, 5), 1, 0, (3, 3), "same", (1, 1), None, obj=True, p=1, pp=1),
        mk(2, (4, 4), 0, 2, (3, 3), "torus", (1, 1), None, obj=True, p=1, pp=0),
        mk(3, (3, 3, 3), 1, 1, (3, 3, 3), "torus", (1, 1, 1), None, gs="generators" if tier == "quick" else "all"),
        mk(3, (2, 3, 4), 1, 0, (3, 3, 3), "mixed", (1, 1, 1), None, gs="generators" if tier == "quick" else "all"),
        mk(3, (2, 3, 4), 0, 1, (3, 1, 3), "same", (1, 2, 1), None, gs="generators" if tier == "quick" else "all"),
        mk(3, (3, 3, 3), 0, 1, (2, 2, 2), "valid", (1, 1, 1), None, gs="generators" if tier == "quick" else "all"),
        mk(3, (2, 2, 3), 0, 0, (3, 3, 3), "explicit", (1, 1, 1), (2, 2, 2), gs="generators" if tier == "quick" else "all"),
        mk(3, (3, 3, 3), 1, 0, (3, 3, 3), "torus", (1, 1, 1), None, obj=True, p=1, pp=1, gs="generators" if tier == "quick" else "all"),
        mk(3, (2, 3, 4), 0, 1, (3, 3, 3), "mixed", (1, 1, 1), None, obj=True, p=1, pp=0, gs="generators" if tier == "quick" else "all"),
        mk(3, (3, 2, 2), 1, 0, (3, 1, 3), "mixed", (1, 2, 1), None, obj=True, p=0, pp=1, gs="generators" if tier == "quick" else "all"),
        mk(2, (3, 5), 1, 1, (3, 3), "mixed", (1, 2), None, obj=True, p=1, pp=1),
    ]
    if tier == "quick":
        shapes = [(4, 4), (3, 5)]
        fshapes = [(3, 3), (2, 2), (3, 1)]
        kmax = 3
    else:
        shapes = [(4, 4), (3, 5), (2, 5), (3, 4), (5, 5)]
        fshapes = [(3, 3), (2, 2), (3, 1), (1, 1), (2, 3), (5, 5)]
        kmax = 4
    pool = []
    for shape, fshape, mode in itertools.product(shapes, fshapes, MODES):
        for k, kp in itertools.product(range(0, 4), range(0, 4)):
            if k + kp > kmax or k > 2 or kp > 3:
                continue
            for rdil in [(1, 1), (2, 2), (1, 2)]:
                for ldil in [None, (2, 2), (1, 2)]:
                    c = mk(2, shape, k, kp, fshape, mode, rdil, ldil)
                    if _valid_cfg(c):
                        pool.append(c)
                    if mode in ("torus", "same") and ldil is None and rdil == (1, 1):
                        for p, pp in [(0, 1), (1, 1), (1, 0)]:
                            c2 = mk(2, shape, k, kp, fshape, mode, rdil, ldil, obj=True, p=p, pp=pp)
                            if _valid_cfg(c2) and shape[0] == shape[1] or mode == "same":
                                if _valid_cfg(c2):
                                    pool.append(c2)
    if tier == "thorough":
        for shape in [(3, 3, 3), (2, 3, 4)]:
            for fshape in [(3, 3, 3), (2, 2, 2), (3, 1, 3)]:
                for mode in MODES:
                    for k, kp in [(0, 0), (1, 0), (0, 1), (1, 1), (0, 2), (2, 0)]:
                        for rdil, ldil in [((1, 1, 1), None), ((1, 2, 1), None), ((1, 1, 1), (2, 2, 2))]:
                            c = mk(3, shape, k, kp, fshape, mode, rdil, ldil, gs="all")
                            if _valid_cfg(c):
                                pool.append(c)
    core = [c for c in core if _valid_cfg(c)]
    n = 60 if tier == "quick" else 700
    return sample_cells(core, pool, n, seed)


def exhaustive(tier):
    return False


def run_cell(cfg, cx):
    import jax.numpy as jnp
    import ginjax.geometric as geom
    from jxsmt import sym as S, interp as I, refs

    D, shape, k, kp, fshape = cfg["D"], tuple(cfg["shape"]), cfg["k"], cfg["kp"], tuple(cfg["fshape"])
    rdil = tuple(cfg["rdil"])
    ldil = None if cfg["ldil"] is None else tuple(cfg["ldil"])
    is_torus, padding = _opts(cfg)
    if isinstance(padding, (list, tuple)):
        padding = tuple(tuple(p) for p in padding)
    p, pp = cfg["p"], cfg["pp"]
    A = S.var_array("A", (1, 1) + shape + (D,) * k)
    C = S.var_array("C", (1, 1) + fshape + (D,) * kp)
    gs = group_elements(D, cfg["gs"])

    if not cfg["obj"]:
        def conv(a, c, it, pad, ld, rd):
            return geom.convolve(D, a, c, it, 1, pad, ld, rd)

        base = I.sym_call(lambda a, c: conv(a, c, is_torus, padding, ldil, rdil), A, C)
        # translator validation: exact-concrete run of the interpreter vs the real function
        rng = np.random.RandomState(1)
        a0 = rng.randint(-2, 3, size=A.shape).astype(np.float32)
        c0 = rng.randint(-2, 3, size=C.shape).astype(np.float32)
        got = I.sym_call(lambda a, c: conv(a, c, is_torus, padding, ldil, rdil), S.const_array(a0), S.const_array(c0))
        real = np.asarray(conv(jnp.asarray(a0), jnp.asarray(c0), is_torus, padding, ldil, rdil))
        mine = np.array([float(q.const_value()) for q in got.a.reshape(-1)]).reshape(got.shape)
        if not np.allclose(mine, real, atol=1e-4):
            raise I.Unsupported("translator validation failed for convolve")
        cx.validated_against_impl()

        for g in gs:
            it_g = perm_axes(g, is_torus)
            rd_g = perm_axes(g, rdil)
            ld_g = None if ldil is None else perm_axes(g, ldil)
            pad_g = perm_axes(g, padding) if isinstance(padding, tuple) else padding
            gA = S.Sym(refs.ref_action(D, A.a, 0, g, lead=2))
            gC = S.Sym(refs.ref_action(D, C.a, 0, g, lead=2))
            lhs = I.sym_call(lambda a, c: conv(a, c, it_g, pad_g, ld_g, rd_g), gA, gC)
            rhs = refs.ref_action(D, base.a, 0, g, lead=2)

            def replay(vals, bvals, g=g, it_g=it_g, rd_g=rd_g, ld_g=ld_g, pad_g=pad_g, par=0):
                a = cx.conc(A, vals)
                c = cx.conc(C, vals)
                l = conv(jnp.asarray(refs.ref_action(D, a, 0, g, lead=2)), jnp.asarray(refs.ref_action(D, c, 0, g, lead=2)),
                         it_g, pad_g, ld_g, rd_g)
                r = refs.ref_action(D, np.asarray(conv(jnp.asarray(a), jnp.asarray(c), is_torus, padding, ldil, rdil)), par, g, lead=2)
                return cx.deviates(np.asarray(l), r)

            cx.equal(f"equivariance[g={gkey(g)}]", lhs, rhs, replay=replay,
                     key=f"convolve:D={D}:shape={shape}:f={fshape}:k={k},{kp}:mode={cfg['mode']}:ldil={ldil}:rdil={rdil}:g={gkey(g)}")
        # canary: a reflection with the output declared with the wrong parity (must be refuted)
        g = gs[0] if refs.det_signed_perm(gs[0]) == -1 else [h for h in group_elements(D) if refs.det_signed_perm(h) == -1][0]
        it_g, rd_g = perm_axes(g, is_torus), perm_axes(g, rdil)
        ld_g = None if ldil is None else perm_axes(g, ldil)
        pad_g = perm_axes(g, padding) if isinstance(padding, tuple) else padding
        gA = S.Sym(refs.ref_action(D, A.a, 0, g, lead=2))
        gC = S.Sym(refs.ref_action(D, C.a, 0, g, lead=2))
        lhs = I.sym_call(lambda a, c: conv(a, c, it_g, pad_g, ld_g, rd_g), gA, gC)
        rhs_wrong = refs.ref_action(D, base.a, 1, g, lead=2)

        def replay_c(vals, bvals):
            a = cx.conc(A, vals)
            c = cx.conc(C, vals)
            l = conv(jnp.asarray(refs.ref_action(D, a, 0, g, lead=2)), jnp.asarray(refs.ref_action(D, c, 0, g, lead=2)), it_g, pad_g, ld_g, rd_g)
            r = refs.ref_action(D, np.asarray(conv(jnp.asarray(a), jnp.asarray(c), is_torus, padding, ldil, rdil)), 1, g, lead=2)
            return cx.deviates(np.asarray(l), r)
        cx.canary("canary[wrong output parity]", lhs, rhs_wrong, replay=replay_c)

        # cyclic translations on toroidal axes (no image dilation)
        if ldil is None and cfg["mode"] in ("torus", "torus_str", "mixed"):
            taxes = [d for d in range(D) if is_torus[d]]
            shifts = []
            for d in taxes:
                for t in range(1, shape[d]):
                    sh = [0] * D
                    sh[d] = t
                    shifts.append(tuple(sh))
            if len(taxes) > 1:
                shifts.append(tuple(1 if d in taxes else 0 for d in range(D)))
            for sh in shifts:
                axes = tuple(2 + d for d in range(D))
                rA = S.Sym(np.roll(A.a, sh, axis=axes))
                lhs = I.sym_call(lambda a, c: conv(a, c, is_torus, padding, ldil, rdil), rA, C)
                rhs = np.roll(base.a, sh, axis=axes)

                def replay_t(vals, bvals, sh=sh, axes=axes):
                    a = cx.conc(A, vals)
                    c = cx.conc(C, vals)
                    l = conv(jnp.asarray(np.roll(a, sh, axis=axes)), jnp.asarray(c), is_torus, padding, ldil, rdil)
                    r = np.roll(np.asarray(conv(jnp.asarray(a), jnp.asarray(c), is_torus, padding, ldil, rdil)), sh, axis=axes)
                    return cx.deviates(np.asarray(l), r)
                cx.equal(f"translation[{sh}]", lhs, rhs, replay=replay_t,
                         key=f"convolve:shift:D={D}:shape={shape}:mode={cfg['mode']}:t={sh}")
            # canary: shift by one declared as no shift
            sh = shifts[0]
            axes = tuple(2 + d for d in range(D))
            lhs = I.sym_call(lambda a, c: conv(a, c, is_torus, padding, ldil, rdil), S.Sym(np.roll(A.a, sh, axis=axes)), C)
            cx.canary("canary[shift ignored]", lhs, base.a)
        return

    # ---- object level: GeometricImage.convolve_with, parity bookkeeping p+p'
    torus_flag = is_torus
    meta = {}

    def conv_obj(a, c, it, rd=rdil):
        img = geom.GeometricImage(a, p, D, it)
        flt = geom.GeometricImage(c, pp, D, it)
        out = img.convolve_with(flt, 1, padding, ldil, rd)
        meta["parity"], meta["k"], meta["D"], meta["is_torus"] = out.parity, out.k, out.D, out.is_torus
        return out.data

    A1 = S.Sym(A.a[0, 0])
    C1 = S.Sym(C.a[0, 0])
    base = I.sym_call(lambda a, c: conv_obj(a, c, torus_flag), A1, C1)
    out_par = meta["parity"]
    cx.structural("declared type of A*C", meta["parity"] == (p + pp) % 2 and meta["k"] == k + kp and meta["D"] == D,
                  f"declared (k,parity)=({meta['k']},{meta['parity']}), expected ({k + kp},{(p + pp) % 2})",
                  key=f"convolve_with:type:k={k},{kp}:p={p},{pp}")
    for g in gs:
        it_g = perm_axes(g, torus_flag)
        gA = S.Sym(refs.ref_action(D, A1.a, p, g))
        gC = S.Sym(refs.ref_action(D, C1.a, pp, g))
        rd_g = perm_axes(g, rdil)
        lhs = I.sym_call(lambda a, c: conv_obj(a, c, it_g, rd_g), gA, gC)
        rhs = refs.ref_action(D, base.a, out_par, g)

        def replay(vals, bvals, g=g, it_g=it_g, rd_g=rd_g):
            a = cx.conc(A1, vals)
            c = cx.conc(C1, vals)
            l = conv_obj(jnp.asarray(refs.ref_action(D, a, p, g)), jnp.asarray(refs.ref_action(D, c, pp, g)), it_g, rd_g)
            o = geom.GeometricImage(jnp.asarray(a), p, D, torus_flag).convolve_with(
                geom.GeometricImage(jnp.asarray(c), pp, D, torus_flag), 1, padding, ldil, rdil)
            r = refs.ref_action(D, np.asarray(o.data), o.parity, g)
            return cx.deviates(np.asarray(l), r)
        cx.equal(f"convolve_with equivariance[g={gkey(g)}]", lhs, rhs, replay=replay,
                 key=f"convolve_with:D={D}:shape={shape}:k={k},{kp}:p={p},{pp}:mode={cfg['mode']}:g={gkey(g)}")
    # ---- the statement as a user writes it, through the library's OWN action (which has to carry the per-axis flags):
    #      A.times_group_element(g).convolve_with(C.times_group_element(g)) == A.convolve_with(C).times_group_element(g)
    if ldil is None and not isinstance(padding, tuple):
        for g in gs:
            gm = np.asarray(g)
            rd_g = perm_axes(g, rdil)
            m2 = {}

            def lib_lhs(a, c, gm=gm, rd_g=rd_g):
                img = geom.GeometricImage(a, p, D, torus_flag).times_group_element(gm)
                flt = geom.GeometricImage(c, pp, D, torus_flag).times_group_element(gm)
                out = img.convolve_with(flt, 1, padding, None, rd_g)
                m2["l"] = (out.parity, out.k, tuple(out.is_torus))
                return out.data

            def lib_rhs(a, c, gm=gm):
                out = geom.GeometricImage(a, p, D, torus_flag).convolve_with(geom.GeometricImage(c, pp, D, torus_flag), 1, padding, None, rdil)
                out = out.times_group_element(gm)
                m2["r"] = (out.parity, out.k, tuple(out.is_torus))
                return out.data
            l = I.sym_call(lib_lhs, A1, C1)
            r = I.sym_call(lib_rhs, A1, C1)

            def replay_lib(vals, bvals, lib_lhs=lib_lhs, lib_rhs=lib_rhs):
                a, c = jnp.asarray(cx.conc(A1, vals)), jnp.asarray(cx.conc(C1, vals))
                return cx.deviates(np.asarray(lib_lhs(a, c)), np.asarray(lib_rhs(a, c)))
            lkey = f"convolve_with:lib-action:D={D}:shape={shape}:k={k},{kp}:p={p},{pp}:mode={cfg['mode']}:g={gkey(g)}"
            cx.equal(f"(g.A)*(g.C) = g.(A*C) through the library's action[g={gkey(g)}]", l, r, replay=replay_lib, key=lkey)
            cx.structural(f"type and flags of both sides agree[g={gkey(g)}]", m2["l"] == m2["r"] and m2["r"][2] == tuple(perm_axes(g, torus_flag)),
                          f"(parity,k,is_torus): (g.A)*(g.C) -> {m2['l']}, g.(A*C) -> {m2['r']}, flags carried by g: {tuple(perm_axes(g, torus_flag))}",
                          key="flags:" + lkey)
    g = [h for h in group_elements(D) if refs.det_signed_perm(h) == -1][0]
    gA = S.Sym(refs.ref_action(D, A1.a, p, g))
    gC = S.Sym(refs.ref_action(D, C1.a, pp, g))
    lhs = I.sym_call(lambda a, c: conv_obj(a, c, perm_axes(g, torus_flag), perm_axes(g, rdil)), gA, gC)
    cx.canary("canary[wrong output parity]", lhs, refs.ref_action(D, base.a, out_par + 1, g))
