"""C10 — symmetrisation wrappers make any inner model equivariant."""
from __future__ import annotations

import itertools

import numpy as np

from props.common import gkey

INFO = {
    "explanation": "models.GroupAverage, models.Climate1D and models.ModelWrapper are traced with the inner model replaced by an UNINTERPRETED "
                   "function of its whole input (one z3 function symbol per output entry: nonlinear, channel-mixing, position-dependent by "
                   "construction) and executed symbolically; z3 (QF_UFLRA) decides GA(h.x) = h.GA(x) for every h in G when averaging is active, "
                   "GA(x) = inner(x) when off, Climate1D(F.x) = F.Climate1D(x) for the equator flip, from1d(to1d(x)) = x, "
                   "to1d(lonflip.x) = flip_1.to1d(x), and ModelWrapper's channel placement off_t + c*D^k + i.",
    "functions": ["models.GroupAverage.__call__", "models.Climate1D.__call__", "Climate1D.to1d", "Climate1D.from1d", "Climate1D.get_1d_signature",
                  "models.ModelWrapper.__call__", "MultiImage.times_group_element", "MultiImage.__add__", "MultiImage.__truediv__",
                  "MultiImage.to_scalar_multi_image", "MultiImage.from_scalar_multi_image"],
    "bounds": {
        "quick": "GroupAverage: G in {B_d, rotations, C2^d, C4, C2, trivial}, d=2 N=3, d=3 N=2 (B_3, C2^3); signatures incl. (0,1),(1,1); all h in G. "
                 "Climate1D: (lon,lat) in {(3,2),(4,3)}, past in {1,2}, future=1 (+ (past,future) in {(2,2),(1,2),(2,3)} on (3,2)), constants {none, scalar, scalar+pseudoscalar}, both insertion orders",
        "thorough": "adds d=3 rotations (24), (lon,lat)=(4,4), past=future=2 round trip",
    },
    "outside": ["inner models with several input shapes; aux_data / batch statistics (Climate1D asserts None)"],
    "assumptions": ["inner model = uninterpreted function of its input read by type (canonical order); replay uses a fixed generic nonlinear model"],
}

GA_SIGS = [
    ([((0, 0), 1), ((1, 0), 1)], [((1, 0), 1)]),
    ([((0, 1), 1), ((1, 1), 1)], [((0, 1), 1), ((1, 1), 1)]),
    ([((1, 0), 1)], [((0, 0), 1), ((2, 0), 1)]),
    # inner models that emit their blocks in NON-sorted type order (the averaging sum and the final division must keep pairing by type)
    ([((1, 0), 1), ((0, 0), 1)], [((1, 0), 1), ((0, 0), 2)]),
    ([((1, 1), 1)], [((1, 1), 1), ((0, 1), 1), ((0, 0), 1)]),
]


def _groups(D):
    import ginjax.geometric as geom
    from jxsmt import refs
    allops = [np.asarray(g) for g in geom.make_all_operators(D)]
    out = {"B": allops, "rot": [g for g in allops if refs.det_signed_perm(g) == 1], "C2": [np.asarray(g) for g in geom.make_C2_group(D)],
           "triv": [np.eye(D, dtype=int)]}
    if D == 2:
        r = np.array([[0, -1], [1, 0]])
        out["C4"] = [np.linalg.matrix_power(r, i) for i in range(4)]
        out["C2rot"] = [np.eye(2, dtype=int), -np.eye(2, dtype=int)]
    return out


def cells(tier, seed):
    out = []
    for G in ("B", "rot", "C2", "C4", "C2rot", "triv"):
        for si in range(len(GA_SIGS)):
            if tier == "quick" and G in ("C2rot", "triv") and si:
                continue
            out.append({"w": "ga", "D": 2, "N": 3, "G": G, "sig": si, "mode": "always"})
    # non-square / non-cubic images with groups that exchange axes (the wrapper's own use of the MultiImage action, both directions)
    out.append({"w": "ga", "D": 2, "N": 3, "shape": (3, 2), "G": "B", "sig": 0, "mode": "always"})
    out.append({"w": "ga", "D": 2, "N": 3, "shape": (2, 3), "G": "C4", "sig": 3, "mode": "always"})
    out.append({"w": "ga", "D": 3, "N": 2, "shape": (1, 2, 3), "G": "rot" if tier == "thorough" else "B", "sig": 0, "mode": "inference"})
    out.append({"w": "ga", "D": 2, "N": 3, "G": "B", "sig": 0, "mode": "inference"})
    out.append({"w": "ga", "D": 2, "N": 3, "G": "B", "sig": 1, "mode": "off"})
    out.append({"w": "ga", "D": 2, "N": 3, "G": "C4", "sig": 0, "mode": "always_then_train"})
    out.append({"w": "ga", "D": 2, "N": 3, "G": "C2", "sig": 1, "mode": "inference_via_eqx"})
    out.append({"w": "ga", "D": 2, "N": 3, "G": "B", "sig": 0, "mode": "inference_then_train"})
    out.append({"w": "ga", "D": 2, "N": 3, "G": "B", "sig": 0, "mode": "empty"})
    for G in ("B", "C2") + (("rot",) if tier == "thorough" else ()):
        out.append({"w": "ga", "D": 3, "N": 2, "G": G, "sig": 0, "mode": "always"})
        out.append({"w": "ga", "D": 3, "N": 2, "G": G, "sig": 1, "mode": "always"})
    for dims in [(3, 2), (4, 3)] + ([(4, 4)] if tier == "thorough" else []):
        for past in (1, 2):
            for const in ("none", "scalar", "both"):
                for order in (0, 1):
                    if tier == "quick" and dims == (4, 3) and const == "scalar":
                        continue
                    out.append({"w": "climate", "dims": dims, "past": past, "const": const, "order": order})
    # several future steps per dynamic channel (channel bookkeeping c = size // future_steps in from1d); past == future: round trip
    for past, fut, const, order in [(2, 2, "none", 0), (2, 2, "none", 1), (1, 2, "scalar", 1), (2, 3, "both", 0)]:
        out.append({"w": "climate", "dims": (3, 2), "past": past, "future": fut, "const": const, "order": order})
    out.append({"w": "climate", "dims": (3, 2), "past": 2, "future": 2, "const": "none", "order": 1, "cscalar": 3})
    out.append({"w": "climate", "dims": (3, 2), "past": 1, "future": 3, "const": "scalar", "order": 0, "cscalar": 2})
    if tier == "thorough":
        out.append({"w": "climate", "dims": (4, 3), "past": 2, "future": 2, "const": "none", "order": 1})
        out.append({"w": "climate", "dims": (4, 3), "past": 3, "future": 2, "const": "both", "order": 0})
    out.append({"w": "wrapper", "D": 2, "N": 2, "lead": 1})
    out.append({"w": "wrapper", "D": 3, "N": 2, "lead": 1})
    return out


def exhaustive(tier):
    return True


def run_cell(cfg, cx):
    {"ga": _ga, "climate": _climate, "wrapper": _wrapper}[cfg["w"]](cfg, cx)


def _gen_model_blocks(stubs, name, blocks, out_sig, spatial, D):
    vec = np.concatenate([np.asarray(blocks[q], dtype=np.float32).reshape(-1) for q in sorted(blocks)])
    sizes = [c * int(np.prod(spatial)) * D ** q[0] for q, c in out_sig]
    y = stubs.generic_model(name, vec, int(sum(sizes))).astype(np.float32)
    out, i = {}, 0
    for (q, c), sz in zip(out_sig, sizes):
        out[q] = y[i:i + sz].reshape((c,) + tuple(spatial) + (D,) * q[0])
        i += sz
    return out


def _ga(cfg, cx):
    import jax.numpy as jnp
    import ginjax.geometric as geom
    import ginjax.ml  # noqa: F401
    import ginjax.models as models
    from jxsmt import sym as S, interp as I, refs, stubs
    from fractions import Fraction

    D, N = cfg["D"], cfg["N"]
    in_sig, out_sig = GA_SIGS[cfg["sig"]]
    in_sig = [(tuple(q), c) for q, c in in_sig]
    out_sig = [(tuple(q), c) for q, c in out_sig]
    ops = _groups(D)[cfg["G"]]
    shape = tuple(cfg["shape"]) if cfg.get("shape") else (N,) * D
    inner = stubs.make_uf_model("f", out_sig)
    mode = cfg["mode"]
    if mode == "always":
        ga = models.GroupAverage(inner, ops, always_average=True)
    elif mode == "inference":
        ga = models.GroupAverage(inner, ops, always_average=False, inference=True)
    elif mode == "empty":
        ga = models.GroupAverage(inner, [], always_average=True)
    elif mode == "always_then_train":
        # always-average wrapper switched to inference mode and back to training mode the equinox way: averaging stays active
        import equinox as eqx
        ga = eqx.nn.inference_mode(eqx.nn.inference_mode(models.GroupAverage(inner, ops, always_average=True)), value=False)
    elif mode == "inference_via_eqx":
        import equinox as eqx
        ga = eqx.nn.inference_mode(models.GroupAverage(inner, ops))
    elif mode == "inference_then_train":
        import equinox as eqx
        ga = eqx.nn.inference_mode(eqx.nn.inference_mode(models.GroupAverage(inner, ops)), value=False)   # averaging off again
    else:
        ga = models.GroupAverage(inner, ops)
    x = {q: S.var_array(f"x{q[0]}{q[1]}", (c,) + shape + (D,) * q[0]) for q, c in in_sig}
    meta = {}

    def run(xb):
        out, aux = ga(geom.MultiImage({q: xb[q] for q, _ in in_sig}, D, True))
        meta["keys"] = list(out.keys())
        meta["D"] = out.D
        return dict(out.data)
    ckey = f"G={cfg['G']}:D={D}:sig={cfg['sig']}:mode={mode}" + (f":shape={shape}" if cfg.get("shape") else "")
    base = I.sym_call(run, x)
    cx.structural("output types", set(base) == {q for q, _ in out_sig}, f"{sorted(base)}", key=f"types:{ckey}")
    if mode in ("off", "empty", "inference_then_train"):
        exp = stubs.uf_model_apply("f", {q: v.a for q, v in x.items()}, out_sig, shape, D)
        for q in exp:
            cx.equal(f"averaging off: GA(x) == inner(x) [{q}]", base[q], exp[q], key=f"off:{ckey}:{q}")
        cx.canary("canary[off == doubled]", base[out_sig[0][0]], exp[out_sig[0][0]] * 2)
        return
    # definition: mean over g of g^T . inner(g . x)
    acc = None
    for g in ops:
        gx = {q: refs.ref_action(D, v.a, q[1], g, lead=1) for q, v in x.items()}
        gshape = tuple(next(iter(gx.values())).shape[1:1 + D])  # the extents travel with their axes (non-square images)
        fo = stubs.uf_model_apply("f", gx, out_sig, gshape, D)
        back = {q: refs.ref_action(D, fo[q], q[1], np.asarray(g).T, lead=1) for q in fo}
        acc = back if acc is None else {q: acc[q] + back[q] for q in acc}
    for q in acc:
        # the code multiplies by the float 1.0/|G|; the constant enters at the exact value of that float32 (DESIGN 2.2)
        cx.equal(f"GA definition [{q}]", base[q], acc[q] * Fraction(float(np.float32(1.0 / len(ops)))), key=f"def:{ckey}:{q}",
                 replay=lambda vals, bvals: (False, "definition obligation has no float replay (exact rational identity)"))
    for h in ops:
        hx = {q: S.Sym(refs.ref_action(D, v.a, q[1], h, lead=1)) for q, v in x.items()}
        lhs = I.sym_call(run, hx)
        for q in base:
            def replay(vals, bvals, h=h, q=q):
                xb = {r: cx.conc(v, vals) for r, v in x.items()}
                l = run({r: jnp.asarray(refs.ref_action(D, v, r[1], h, lead=1)) for r, v in xb.items()})
                r_ = run({r: jnp.asarray(v) for r, v in xb.items()})
                return cx.deviates(np.asarray(l[q]), refs.ref_action(D, np.asarray(r_[q]), q[1], h, lead=1))
            cx.equal(f"GA equivariant[{q},h={gkey(h)}]", lhs[q], refs.ref_action(D, base[q].a, q[1], h, lead=1), replay=replay,
                     key=f"eq:{ckey}:t={q}:h={gkey(h)}")
    # canary: equivariance under an element OUTSIDE the group must be refutable (when there is one), else wrong parity
    from props.common import group_elements
    outside = [g for g in group_elements(D) if gkey(g) not in {gkey(o) for o in ops}]
    q0 = out_sig[0][0]
    if outside:
        h = outside[0]
        hx = {q: S.Sym(refs.ref_action(D, v.a, q[1], h, lead=1)) for q, v in x.items()}
        lhs = I.sym_call(run, hx)

        def replay_c(vals, bvals):
            xb = {r: cx.conc(v, vals) for r, v in x.items()}
            l = run({r: jnp.asarray(refs.ref_action(D, v, r[1], h, lead=1)) for r, v in xb.items()})
            r_ = run({r: jnp.asarray(v) for r, v in xb.items()})
            return cx.deviates(np.asarray(l[q0]), refs.ref_action(D, np.asarray(r_[q0]), q0[1], h, lead=1))
        cx.canary("canary[element outside G]", lhs[q0], refs.ref_action(D, base[q0].a, q0[1], h, lead=1), replay=replay_c)
    else:
        cx.canary("canary[doubled]", base[q0], base[q0].a * 2)


def _climate(cfg, cx):
    import jax.numpy as jnp
    import ginjax.geometric as geom
    import ginjax.ml  # noqa: F401
    import ginjax.models as models
    from jxsmt import sym as S, interp as I, refs, stubs

    D = 2
    n_lons, n_lats = cfg["dims"]
    past = cfg["past"]
    cs = cfg.get("cscalar", 1)   # number of dynamic scalar fields (channel bookkeeping c = size // future_steps)
    dyn = [((0, 0), cs), ((1, 0), 1)] if cfg["order"] == 0 else [((1, 0), 1), ((0, 0), cs)]
    if n_lons == 4:
        dyn = dyn + [((0, 1), 1)] if cfg["order"] == 0 else [((0, 1), 1)] + dyn
    const = {"none": {}, "scalar": {(0, 0): 1}, "both": {(0, 0): 1, (0, 1): 2}}[cfg["const"]]
    flags = (True, False)
    fut = cfg.get("future", 1)
    out_keys = tuple((q, c * fut) for q, c in dyn)  # `fut` future steps per dynamic channel
    sig1d = models.Climate1D.get_1d_signature(geom.Signature(out_keys), n_lats)
    inner = stubs.make_uf_model("c", [(tuple(q), c) for q, c in sig1d])
    cl = models.Climate1D(inner, geom.Signature(out_keys), past, fut, (n_lons, n_lats), dict(const), flags)
    ckey = f"dims={cfg['dims']}:past={past}:const={cfg['const']}:order={cfg['order']}" + (f":future={fut}" if fut != 1 else "") + (f":cscalar={cs}" if cs != 1 else "")
    # input: per type dynamic channels*past (+ constants appended on the channel axis)
    types = [q for q, _ in dyn] + [q for q in const if q not in dict(dyn)]
    chans = {q: dict(dyn).get(q, 0) * past + const.get(q, 0) for q in types}
    x = {q: S.var_array(f"x{q[0]}{q[1]}", (chans[q], n_lons, n_lats) + (D,) * q[0]) for q in types}
    mk = lambda xb: geom.MultiImage({q: xb[q] for q in types}, D, flags)
    F = np.array([[1, 0], [0, -1]])
    Lf = np.array([[-1, 0], [0, 1]])

    def call(xb):
        out, _ = cl(mk(xb))
        return dict(out.data)
    base = I.sym_call(call, x)
    cx.structural("output types", set(base) == {q for q, _ in dyn}, f"{sorted(base)} vs {dyn}", key=f"types:{ckey}")
    Fx = {q: S.Sym(refs.ref_action(D, v.a, q[1], F, lead=1)) for q, v in x.items()}
    lhs = I.sym_call(call, Fx)
    for q in base:
        def replay(vals, bvals, q=q):
            xb = {r: cx.conc(v, vals) for r, v in x.items()}
            l = call({r: jnp.asarray(refs.ref_action(D, v, r[1], F, lead=1)) for r, v in xb.items()})
            r_ = call({r: jnp.asarray(v) for r, v in xb.items()})
            return cx.deviates(np.asarray(l[q]), refs.ref_action(D, np.asarray(r_[q]), q[1], F, lead=1))
        cx.equal(f"equator flip commutes [{q}]", lhs[q], refs.ref_action(D, base[q].a, q[1], F, lead=1), replay=replay, key=f"flip:{ckey}:{q}")
    q0 = dyn[0][0]
    Lx = {q: S.Sym(refs.ref_action(D, v.a, q[1], Lf, lead=1)) for q, v in x.items()}
    cx.canary("canary[longitude flip commutes with an arbitrary inner model]", I.sym_call(call, Lx)[q0], refs.ref_action(D, base[q0].a, q0[1], Lf, lead=1),
              replay=lambda vals, bvals: cx.deviates(
                  np.asarray(call({r: jnp.asarray(refs.ref_action(D, cx.conc(v, vals), r[1], Lf, lead=1)) for r, v in x.items()})[q0]),
                  refs.ref_action(D, np.asarray(call({r: jnp.asarray(cx.conc(v, vals)) for r, v in x.items()})[q0]), q0[1], Lf, lead=1)))
    # to1d(lonflip . x) == flip_1 . to1d(x)
    t1 = I.sym_call(lambda xb: dict(cl.to1d(mk(xb)).data), x)
    t1f = I.sym_call(lambda xb: dict(cl.to1d(mk(xb)).data), Lx)
    f1 = np.array([[-1]])
    for q in t1:
        cx.equal(f"to1d turns the longitude flip into the 1-D flip [{q}]", t1f[q], refs.ref_action(1, t1[q].a, q[1], f1, lead=1),
                 key=f"to1d-flip:{ckey}:{q}",
                 replay=lambda vals, bvals, q=q: cx.deviates(
                     np.asarray(cl.to1d(mk({r: jnp.asarray(refs.ref_action(D, cx.conc(v, vals), r[1], Lf, lead=1)) for r, v in x.items()}))[q]),
                     refs.ref_action(1, np.asarray(cl.to1d(mk({r: jnp.asarray(cx.conc(v, vals)) for r, v in x.items()}))[q]), q[1], f1, lead=1)))
    # 1-D signature bookkeeping: to1d's channel counts equal get_1d_signature of the input's dynamic+constant layout
    # lossless re-layout: from1d(to1d(x)) == x on the dynamic part when past == future(=1) and there are no constants
    if past == fut and not const:
        rt = I.sym_call(lambda xb: dict(cl.from1d(cl.to1d(mk(xb))).data), x)
        for q in x:
            if q in rt:
                cx.equal(f"from1d(to1d(x)) == x [{q}]", rt[q], x[q], key=f"roundtrip:{ckey}:{q}",
                         replay=lambda vals, bvals, q=q: cx.deviates(
                             np.asarray(cl.from1d(cl.to1d(mk({r: jnp.asarray(cx.conc(v, vals)) for r, v in x.items()})))[q]), cx.conc(x[q], vals)))
            else:
                cx.structural(f"from1d(to1d(x)) has type {q}", False, "type missing after the round trip", key=f"roundtrip-missing:{ckey}:{q}")
    # to1d is injective in general (nothing lost): every input variable occurs exactly once in the 1-D image
    occ = {}
    for q, v in t1.items():
        for p_ in v.a.reshape(-1):
            for a in p_.atoms():
                occ[a] = occ.get(a, 0) + 1
    allv = {next(iter(p_.atoms())) for v in x.values() for p_ in v.a.reshape(-1)}
    cx.structural("to1d keeps every entry exactly once", set(occ) == allv and all(n == 1 for n in occ.values()),
                  f"{len(allv - set(occ))} entries lost, {sum(1 for n in occ.values() if n > 1)} duplicated", key=f"to1d-lossless:{ckey}")


def _wrapper(cfg, cx):
    import jax.numpy as jnp
    import equinox as eqx
    import ginjax.geometric as geom
    import ginjax.ml  # noqa: F401
    import ginjax.models as models
    from jxsmt import sym as S, interp as I, stubs

    D, N = cfg["D"], cfg["N"]
    shape = (N,) * D
    in_sig = [((1, 0), 1), ((0, 0), 2)] if D == 2 else [((0, 1), 1), ((1, 0), 1)]
    out_sig = [((0, 0), 1), ((2, 0), 1), ((1, 1), 2)] if D == 2 else [((1, 1), 1), ((0, 0), 2)]
    cin = sum(c * D ** q[0] for q, c in in_sig)
    cout = sum(c * D ** q[0] for q, c in out_sig)

    class ArrModel(eqx.Module):
        def __call__(self, a):
            return stubs.ufa_p.bind(a, name="cnn", out_shape=(cout,) + shape)
    mw = models.ModelWrapper(D, ArrModel(), geom.Signature(tuple(out_sig)), True)
    x = {q: S.var_array(f"x{q[0]}{q[1]}", (c,) + shape + (D,) * q[0]) for q, c in in_sig}
    meta = {}

    def run(xb):
        out, _ = mw(geom.MultiImage({q: xb[q] for q, _ in in_sig}, D, True))
        meta["sig"] = out.get_signature()
        return dict(out.data)
    got = I.sym_call(run, x)
    # specification: UF input = documented scalar layout of x; output channel off_t + c*D^k + i -> block t, channel c, component i
    parts = []
    for q, c in in_sig:
        b = x[q].a
        b2 = np.moveaxis(b.reshape((c,) + shape + (D ** q[0],)), -1, 1)
        parts.append(b2.reshape((c * D ** q[0],) + shape))
    flat_in = np.concatenate(parts, axis=0)
    y = stubs.uf_apply("cnn", flat_in.reshape(-1), cout * int(np.prod(shape))).reshape((cout,) + shape)
    off = 0
    cx.structural("output signature", tuple(meta["sig"]) == tuple((tuple(q), c) for q, c in out_sig), f"{meta['sig']}")
    for q, c in out_sig:
        k = q[0]
        exp = np.empty((c,) + shape + (D,) * k, dtype=object)
        for ch in range(c):
            for i, comp in enumerate(itertools.product(range(D), repeat=k)):
                exp[(ch,) + (slice(None),) * D + comp] = y[off + ch * D ** k + i]
        off += c * D ** k
        cx.equal(f"channel placement [{q}]", got[q], exp, key=f"wrapper:D={D}:{q}")
    q0 = out_sig[1][0]
    wrong = np.empty(got[q0].shape, dtype=object)
    wrong[...] = y[(0,) + (0,) * D]
    cx.canary("canary[blocks swapped]", got[q0], wrong)
