"""C05 — image algebra is type-sound: declared (k, parity) is how results transform."""
from __future__ import annotations

import itertools
import json
import random

import numpy as np

from props.common import group_elements, gkey

INFO = {
    "explanation": "A typed generator enumerates expression trees over the GeometricImage algebra (+, -, scalar multiples, tensor product, "
                   "transpose, contract, multicontract, levi_civita_contract, norm, convolve_with).  Each tree is evaluated by the real "
                   "methods, traced, and executed symbolically with every leaf entry (and the scalar multiplier) a z3 Real; z3 decides "
                   "E(g.leaves) = g.E(leaves) where the right-hand action uses the (k, parity) DECLARED by the returned object.  Also: "
                   "contraction independent of pair order / order inside a pair; a*b = (b*a) transposed.",
    "functions": ["GeometricImage.__add__", "__sub__", "__mul__", "__rmul__", "times_scalar", "transpose", "contract", "multicontract",
                  "levi_civita_contract", "norm", "convolve_with", "geom.mul", "geom.multicontract", "LeviCivitaSymbol.get",
                  "GeometricImage.__init__ (parity mod 2)"],
    "bounds": {
        "quick": "d=2 on 2x2 and 3x3 images (3x3 filters), all 8 g; d=3 on 2x2x2, 4 generators; leaf types k<=3 both parities; depth<=2 trees, "
                 "intermediate order <=4: fixed core (all depth-1 trees) + seeded sample of depth-2 trees",
        "thorough": "all depth<=2 trees with intermediate order <=4 (d=2), <=3 (d=3), all 48 g for d=3 on depth-1 trees; seeded depth-3 trees",
    },
    "outside": ["float32 rounding", "leaf orders k>3", "non-uniform boundary flags (covered at array level by C01)"],
    "assumptions": ["real arithmetic; sqrt atoms for norms (abstraction first)"],
}

LEAF_TYPES = [(k, p) for k in range(4) for p in (0, 1)]
FILTER_TYPES = [(0, 0), (1, 0), (1, 1), (2, 0), (0, 1)]


def _typ(e):
    return tuple(e[-1])


def _unary_ops(D, k, p, kcap):
    ops = [("scal",), ("rmul",), ("norm",)]
    if k >= 2:
        perms = list(itertools.permutations(range(k)))[1:]
        for pm in (perms[:1] + perms[-1:]) if len(perms) > 1 else perms:
            ops.append(("transpose", list(pm)))
        for i, j in itertools.combinations(range(k), 2):
            ops.append(("contract", i, j))
            if (i, j) == (0, k - 1):
                ops.append(("contract", j, i))
    if k >= 4:
        ops.append(("multicontract", [[0, 1], [2, 3]]))
        ops.append(("multicontract", [[0, 3], [1, 2]]))
    if k >= D - 1 and D >= 2:
        for idxs in list(itertools.permutations(range(k), D - 1))[:3]:
            ops.append(("lc", list(idxs)))
    for fk, fp in FILTER_TYPES:
        if k + fk <= kcap:
            ops.append(("conv", fk, fp))
    return ops


def _apply_type(D, op, t, t2=None):
    k, p = t
    name = op[0]
    if name in ("scal", "rmul"):
        return (k, p)
    if name == "norm":
        return (0, 0)
    if name == "transpose":
        return (k, p)
    if name == "contract":
        return (k - 2, p)
    if name == "multicontract":
        return (k - 2 * len(op[1]), p)
    if name == "lc":
        return (k - D + 2, (p + 1) % 2)
    if name == "conv":
        return (k + op[1], (p + op[2]) % 2)
    if name in ("add", "sub"):
        return (k, p)
    if name == "mul":
        return (k + t2[0], (p + t2[1]) % 2)
    raise ValueError(op)


def trees(D, depth, kcap, leaf_kmax=3):
    """All expression trees of exactly the given depth (as JSON-able lists, last item = expected type)."""
    leaves = [["leaf", k, p, [k, p]] for (k, p) in LEAF_TYPES if k <= leaf_kmax and (D > 1 or k == 0)]
    level = {0: leaves}
    for d in range(1, depth + 1):
        cur = []
        for sub in level[d - 1]:
            t = _typ(sub)
            for op in _unary_ops(D, t[0], t[1], kcap):
                nt = _apply_type(D, op, t)
                if nt[0] < 0 or nt[0] > kcap:
                    continue
                cur.append([op[0]] + [list(x) if isinstance(x, (list, tuple)) else x for x in op[1:]] + [sub, list(nt)])
            # binary with a fresh leaf on the other side
            cur.append(["add", sub, ["leaf", t[0], t[1], list(t)], list(t)])
            cur.append(["sub", ["leaf", t[0], t[1], list(t)], sub, list(t)])
            for (k2, p2) in LEAF_TYPES:
                if k2 <= leaf_kmax and t[0] + k2 <= kcap and (k2, p2) in [(0, 1), (1, 0), (1, 1), (2, 0)]:
                    cur.append(["mul", sub, ["leaf", k2, p2, [k2, p2]], [t[0] + k2, (t[1] + p2) % 2]])
                    if d == 1:
                        cur.append(["mul", ["leaf", k2, p2, [k2, p2]], sub, [t[0] + k2, (t[1] + p2) % 2]])
        level[d] = cur
    return level[depth]


def cells(tier, seed):
    rng = random.Random(seed + 5)
    out = []
    def mk(D, N, expr, gs):
        return {"D": D, "N": N, "expr": expr, "gs": gs}
    d2_1 = trees(2, 1, 4)
    d2_2 = trees(2, 2, 4)
    d3_1 = trees(3, 1, 3)
    d3_2 = trees(3, 2, 3)
    if tier == "quick":
        for e in d2_1:
            out.append(mk(2, 3 if _typ(e)[0] <= 2 else 2, e, "all"))
        for e in rng.sample(d2_2, 90):
            out.append(mk(2, 2, e, "all"))
        for e in rng.sample(d3_1, 30):
            out.append(mk(3, 2, e, "generators"))
        for e in rng.sample(d3_2, 12):
            out.append(mk(3, 2, e, "generators"))
    else:
        for e in d2_1:
            out.append(mk(2, 3, e, "all"))
        for e in d2_2:
            out.append(mk(2, 2, e, "all"))
        for e in d3_1:
            out.append(mk(3, 2, e, "all"))
        for e in d3_2:
            out.append(mk(3, 2, e, "generators"))
        for e in rng.sample(trees(2, 3, 4), 300):
            out.append(mk(2, 2, e, "all"))
    out.append({"D": 2, "N": 3, "special": "identities", "gs": "all", "expr": None})
    out.append({"D": 3, "N": 2, "special": "identities", "gs": "generators", "expr": None})
    out.append({"D": 2, "N": 4, "special": "metadata", "gs": "all", "expr": None})
    out.append({"D": 3, "N": 2, "special": "metadata", "gs": "generators", "expr": None})
    return out


def exhaustive(tier):
    return False


# ---------------------------------------------------------------------------------------------
def _collect_leaves(e, acc):
    if e[0] == "leaf":
        acc.append(("leaf", e[1], e[2]))
        return
    if e[0] == "conv":
        _collect_leaves(e[3], acc)
        acc.append(("filt", e[1], e[2]))
        return
    for x in e[1:-1]:
        if isinstance(x, list) and x and isinstance(x[0], str):
            _collect_leaves(x, acc)


def _build(e, it, D, geom, scal):
    """Evaluate the tree with the real GeometricImage methods; `it` yields GeometricImage leaves in order."""
    name = e[0]
    if name == "leaf":
        return next(it)
    if name == "conv":
        a = _build(e[3], it, D, geom, scal)
        f = next(it)
        return a.convolve_with(f)
    if name in ("add", "sub", "mul"):
        a = _build(e[1], it, D, geom, scal)
        b = _build(e[2], it, D, geom, scal)
        return a + b if name == "add" else (a - b if name == "sub" else a * b)
    sub = e[-2]
    a = _build(sub, it, D, geom, scal)
    if name == "scal":
        return a.times_scalar(scal)
    if name == "rmul":
        return 2.5 * a
    if name == "norm":
        return a.norm()
    if name == "transpose":
        return a.transpose(tuple(e[1]))
    if name == "contract":
        return a.contract(e[1], e[2])
    if name == "multicontract":
        return a.multicontract(tuple(tuple(x) for x in e[1]))
    if name == "lc":
        idx = tuple(e[1])
        return a.levi_civita_contract(idx if len(idx) > 1 else idx[0])
    raise ValueError(name)


def run_cell(cfg, cx):
    import jax.numpy as jnp
    import ginjax.geometric as geom
    from jxsmt import sym as S, interp as I, refs

    D, N = cfg["D"], cfg["N"]
    gs = group_elements(D, cfg["gs"])
    # LeviCivitaSymbol caches a jnp array on first use; fill the cache outside any trace, as ordinary eager use does
    geom.LeviCivitaSymbol.get(D)
    if cfg.get("special") == "metadata":
        _metadata(cfg, cx, gs)
        return
    if cfg.get("special"):
        _identities(cfg, cx, gs)
        return
    expr = cfg["expr"]
    ekey = json.dumps(expr, separators=(",", ":"))
    spec = []
    _collect_leaves(expr, spec)
    syms = []
    for i, (kind, k, p) in enumerate(spec):
        side = N if kind == "leaf" else 3
        syms.append(S.var_array(f"{'L' if kind == 'leaf' else 'F'}{i}", (side,) * D + (D,) * k))
    sc = S.var_array("s", ())
    meta = {}

    def ev(sv, *arrs):
        imgs = [geom.GeometricImage(a, p, D, True) for a, (kind, k, p) in zip(arrs, spec)]
        o = _build(expr, iter(imgs), D, geom, sv)
        meta.update(k=o.k, parity=o.parity, D=o.D, is_torus=o.is_torus, dims=o.spatial_dims)
        return o.data

    tr = I.Traced(ev, sc, *syms)
    base = tr(sc, *syms)
    exp_t = tuple(expr[-1])
    cx.structural("declared type", (meta["k"], meta["parity"]) == exp_t and meta["D"] == D,
                  f"declared ({meta['k']},{meta['parity']}), typing rules give {exp_t}", key=f"type:D={D}:{ekey}")
    ok, op = meta["k"], meta["parity"]
    if tuple(base.shape) != tuple(meta["dims"]) + (D,) * ok:
        cx.structural("result shape", False, f"data shape {base.shape} vs declared dims {meta['dims']} k={ok}", key=f"shape:D={D}:{ekey}")
        return

    def concrete(vals, g=None):
        arrs = []
        for a, (kind, k, p) in zip(syms, spec):
            c = cx.conc(a, vals)
            arrs.append(jnp.asarray(refs.ref_action(D, c, p, g) if g is not None else c))
        return np.asarray(ev(jnp.float32(vals.get("s", 0.0)), *arrs))

    for g in gs:
        garrs = [S.Sym(refs.ref_action(D, a.a, p, g)) for a, (kind, k, p) in zip(syms, spec)]
        lhs = tr(sc, *garrs)
        rhs = refs.ref_action(D, base.a, op, g)

        def replay(vals, bvals, g=g):
            return cx.deviates(concrete(vals, g), refs.ref_action(D, concrete(vals), op, g))
        cx.equal(f"equivariant[g={gkey(g)}]", lhs, rhs, replay=replay, key=f"eq:D={D}:N={N}:g={gkey(g)}:{ekey}")
    # canary: declared parity flipped, for a reflection
    g = [h for h in group_elements(D) if refs.det_signed_perm(h) == -1][0]
    garrs = [S.Sym(refs.ref_action(D, a.a, p, g)) for a, (kind, k, p) in zip(syms, spec)]
    lhs = tr(sc, *garrs)
    if any(q.t for q in base.a.reshape(-1)):
        cx.canary("canary[parity flipped]", lhs, refs.ref_action(D, base.a, op + 1, g))
    # translator validation
    rng = np.random.RandomState(2)
    conc = [rng.randint(-2, 3, size=a.shape).astype(np.float32) for a in syms]
    got = tr(S.const_array(np.float32(2.0)), *[S.const_array(c) for c in conc])
    real = np.asarray(ev(jnp.float32(2.0), *[jnp.asarray(c) for c in conc]))
    try:
        mine = np.array([float(q.const_value()) if q.is_const() else np.nan for q in got.a.reshape(-1)]).reshape(got.shape)
        if not np.any(np.isnan(mine)):
            if not np.allclose(mine, real, atol=1e-3):
                raise I.Unsupported("translator validation failed")
            cx.validated_against_impl()
    except TypeError:
        pass


def _identities(cfg, cx, gs):
    import jax.numpy as jnp
    import ginjax.geometric as geom
    from jxsmt import sym as S, interp as I, refs
    D, N = cfg["D"], cfg["N"]
    A = S.var_array("A", (N,) * D + (D,) * 4)
    gi = lambda a, p=0: geom.GeometricImage(a, p, D, True)
    pairs_list = [((0, 1), (2, 3)), ((0, 2), (1, 3)), ((0, 3), (1, 2))]
    for pr in pairs_list:
        base = I.sym_call(lambda a: gi(a).multicontract(pr).data, A)
        variants = {
            "pair order": (pr[1], pr[0]),
            "order inside pair": ((pr[0][1], pr[0][0]), pr[1]),
            "both": ((pr[1][1], pr[1][0]), (pr[0][1], pr[0][0])),
        }
        for nm, v in variants.items():
            alt = I.sym_call(lambda a: gi(a).multicontract(v).data, A)
            cx.equal(f"multicontract {pr} vs {v} [{nm}]", alt, base,
                     replay=lambda vals, bvals, v=v, pr=pr: cx.deviates(np.asarray(gi(jnp.asarray(cx.conc(A, vals))).multicontract(v).data),
                                                                        np.asarray(gi(jnp.asarray(cx.conc(A, vals))).multicontract(pr).data)),
                     key=f"contract-order:D={D}:{pr}:{v}")
        # serial contraction == multicontract
        ser = I.sym_call(lambda a: gi(a).contract(*pr[0]).contract(*_shift(pr[1], pr[0])).data, A)
        cx.equal(f"serial contract {pr}", ser, base, key=f"contract-serial:D={D}:{pr}")
    A3 = S.var_array("T", (N,) * D + (D,) * 3)
    for i, j in [(0, 1), (0, 2), (1, 2)]:
        a = I.sym_call(lambda x: gi(x).contract(i, j).data, A3)
        b = I.sym_call(lambda x: gi(x).contract(j, i).data, A3)
        cx.equal(f"contract({i},{j}) == contract({j},{i})", a, b, key=f"contract-swap:D={D}:{i},{j}")
        # definition: sum over the diagonal
        ref = np.empty((N,) * D + (D,), dtype=object)
        for px in itertools.product(range(N), repeat=D):
            for c in range(D):
                acc = S.ZERO
                for m in range(D):
                    idx = [None, None, None]
                    idx[i], idx[j] = m, m
                    idx[[q for q in range(3) if q not in (i, j)][0]] = c
                    acc = acc + A3.a[px + tuple(idx)]
                ref[px + (c,)] = acc
        cx.equal(f"contract({i},{j}) definition", a, ref, key=f"contract-def:D={D}:{i},{j}")
    cx.canary("canary[contract(0,1) vs contract(0,2)]", I.sym_call(lambda x: gi(x).contract(0, 1).data, A3),
              I.sym_call(lambda x: gi(x).contract(0, 2).data, A3))
    # tensor product commutative up to index transposition, parity summed
    gf = lambda a, p=0: geom.GeometricFilter(a, p, D, True)
    # operand classes: image (i) and filter (f, a subclass of the image class that needs odd, equal sides); the product and its
    # commutation law do not depend on which class stands on which side
    classes = [("i", "i")] + ([("f", "i"), ("i", "f"), ("f", "f")] if N % 2 == 1 else [])
    for ((ka, pa), (kb, pb)), (ca, cb) in [(t, c) for t in [((1, 0), (1, 1)), ((2, 0), (1, 0)), ((1, 1), (2, 1)), ((0, 1), (2, 0)), ((2, 0), (2, 1))]
                                            for c in classes]:
        X = S.var_array("X", (N,) * D + (D,) * ka)
        Y = S.var_array("Y", (N,) * D + (D,) * kb)
        meta = {}
        ma, mb = (gf if ca == "f" else gi), (gf if cb == "f" else gi)
        ctag = "" if (ca, cb) == ("i", "i") else f":cls={ca}{cb}"

        def ab(x, y, ma=ma, mb=mb, pa=pa, pb=pb, meta=meta):
            o = ma(x, pa) * mb(y, pb)
            meta["ab"] = (o.k, o.parity)
            return o.data

        def ba_t(x, y, ma=ma, mb=mb, pa=pa, pb=pb, ka=ka, kb=kb, meta=meta):
            o = (mb(y, pb) * ma(x, pa)).transpose(tuple(range(kb, kb + ka)) + tuple(range(kb)))
            meta["ba"] = (o.k, o.parity)
            return o.data
        l = I.sym_call(ab, X, Y)
        r = I.sym_call(ba_t, X, Y)
        cx.equal(f"a*b == (b*a)^T [{(ka, pa)}x{(kb, pb)}{ctag}]", l, r, key=f"mul-comm:D={D}:{ka},{pa}:{kb},{pb}{ctag}",
                 replay=lambda vals, bvals, X=X, Y=Y, ab=ab, ba_t=ba_t: cx.deviates(
                     np.asarray(ab(jnp.asarray(cx.conc(X, vals)), jnp.asarray(cx.conc(Y, vals)))),
                     np.asarray(ba_t(jnp.asarray(cx.conc(X, vals)), jnp.asarray(cx.conc(Y, vals))))))
        cx.structural(f"product type [{(ka, pa)}x{(kb, pb)}{ctag}]", meta["ab"] == (ka + kb, (pa + pb) % 2) and meta["ba"] == meta["ab"],
                      f"declared {meta}", key=f"mul-type:D={D}:{ka},{pa}:{kb},{pb}{ctag}")
        # definition of the product: (a*b)[x][i..,j..] = a[x][i..] b[x][j..]
        ref = np.empty((N,) * D + (D,) * (ka + kb), dtype=object)
        for idx in np.ndindex(*ref.shape):
            px, ci, cj = idx[:D], idx[D:D + ka], idx[D + ka:]
            ref[idx] = X.a[px + ci] * Y.a[px + cj]
        cx.equal(f"a*b definition [{(ka, pa)}x{(kb, pb)}{ctag}]", l, ref, key=f"mul-def:D={D}:{ka},{pa}:{kb},{pb}{ctag}",
                 replay=lambda vals, bvals, X=X, Y=Y, ab=ab, ref=ref: cx.deviates(
                     np.asarray(ab(jnp.asarray(cx.conc(X, vals)), jnp.asarray(cx.conc(Y, vals)))), S.eval_array(ref, vals)))
    # value-level definitions of sum, difference, scalar multiple, transposition, pixel norm, Levi-Civita contraction
    for (k, par) in [(0, 1), (1, 0), (2, 1)]:
        X = S.var_array("P", (N,) * D + (D,) * k)
        Y = S.var_array("Q", (N,) * D + (D,) * k)
        sc = S.var_array("s", (1,))
        for nm, f, ref in [("a+b", lambda x, y, s_: (gi(x, par) + gi(y, par)).data, X.a + Y.a),
                           ("a-b", lambda x, y, s_: (gi(x, par) - gi(y, par)).data, X.a - Y.a),
                           ("a*s", lambda x, y, s_: (gi(x, par) * s_[0]).data, X.a * sc.a[0]),
                           ("s*a", lambda x, y, s_: (s_[0] * gi(x, par)).data, X.a * sc.a[0]),
                           ("times_scalar", lambda x, y, s_: gi(x, par).times_scalar(s_[0]).data, X.a * sc.a[0])]:
            got = I.sym_call(f, X, Y, sc)
            cx.equal(f"{nm} definition [{(k, par)}]", got, ref, key=f"def:{nm}:D={D}:{k},{par}",
                     replay=lambda vals, bvals, f=f, ref=ref, X=X, Y=Y, sc=sc: cx.deviates(
                         np.asarray(f(jnp.asarray(cx.conc(X, vals)), jnp.asarray(cx.conc(Y, vals)), jnp.asarray(cx.conc(sc, vals)))),
                         cx.expected(ref, vals)))
        if k == 2:
            got = I.sym_call(lambda x: gi(x, par).transpose((1, 0)).data, X)
            cx.equal("transpose definition", got, np.swapaxes(X.a, D, D + 1), key=f"def:transpose:D={D}")
        nrm = I.sym_call(lambda x: gi(x, par).norm().data, X)
        sq = np.empty((N,) * D, dtype=object)
        for px in itertools.product(range(N), repeat=D):
            acc = S.ZERO
            for q in np.asarray(X.a[px], dtype=object).reshape(-1):
                acc = acc + q * q
            sq[px] = acc
        cx.equal(f"norm^2 = sum of squared components [{(k, par)}]", nrm.a * nrm.a, sq, key=f"def:norm:D={D}:{k},{par}")
    epsf = np.asarray(geom.LeviCivitaSymbol.get(D))
    kk = D  # one free index left after the D-1 contractions plus one from epsilon: k' = k - D + 2 = 2
    Z = S.var_array("Z", (N,) * D + (D,) * kk)
    idxs = tuple(range(D - 1))
    got = I.sym_call(lambda x: gi(x, 0).levi_civita_contract(idxs if D > 2 else idxs[0]).data, Z)
    ref = np.empty((N,) * D + (D,) * 2, dtype=object)
    for px in itertools.product(range(N), repeat=D):
        for r in range(D):          # the remaining image index (position D-1 of the input)
            for e in range(D):      # the free index of epsilon (its last)
                acc = S.ZERO
                for js in itertools.product(range(D), repeat=D - 1):
                    c = int(epsf[js + (e,)])
                    if c:
                        acc = acc + Z.a[px + js + (r,)] * c
                ref[px + (r, e)] = acc
    cx.equal("levi_civita_contract definition", got, ref, key=f"def:levi-civita:D={D}",
             replay=lambda vals, bvals: cx.deviates(np.asarray(gi(jnp.asarray(cx.conc(Z, vals)), 0).levi_civita_contract(idxs if D > 2 else idxs[0]).data),
                                                    cx.expected(ref, vals)))
    # Levi-Civita symbol is the alternating tensor
    eps = np.asarray(geom.LeviCivitaSymbol.get(D))
    ok = eps.shape == (D,) * D
    from props.common import gkey as _g
    for idx in itertools.product(range(D), repeat=D):
        want = 0
        if len(set(idx)) == D:
            inv = sum(1 for a in range(D) for b in range(a + 1, D) if idx[a] > idx[b])
            want = -1 if inv % 2 else 1
        ok = ok and int(eps[idx]) == want
    cx.structural(f"LeviCivitaSymbol[D={D}]", bool(ok), "Levi-Civita symbol is not the alternating tensor")
    # constructor reduces parity mod 2
    par = [geom.GeometricImage(jnp.zeros((N,) * D), q, D).parity for q in (0, 1, 2, 3, -1)]
    cx.structural("parity mod 2", par == [0, 1, 0, 1, 1], f"parities {par}")


def _metadata(cfg, cx, gs):
    """Declared (k, parity, D, is_torus) of the result of EVERY GeometricImage operation, on every input type with k<=2 (3 where an
    operation needs it), both parities, uniform and mixed boundary flags - the declared type is how the result transforms (the
    expression-tree cells prove that it does), so a wrong declaration anywhere is a type-soundness defect."""
    import jax.numpy as jnp
    import ginjax.geometric as geom
    from props.common import perm_axes
    D, N = cfg["D"], cfg["N"]
    shape = (N,) * D
    for flags in ((True,) * D, (False,) * D, tuple(i % 2 == 0 for i in range(D))):
        for k in range(0, 4):
            for p in (0, 1):
                if D == 3 and k == 3 and p == 1:
                    continue
                a = geom.GeometricImage(jnp.ones(shape + (D,) * k), p, D, flags)
                b = geom.GeometricImage(jnp.ones(shape + (D,) * k) * 2, p, D, flags)
                cases = {
                    "copy": (lambda: a.copy(), (k, p, flags)), "a+b": (lambda: a + b, (k, p, flags)), "a-b": (lambda: a - b, (k, p, flags)),
                    "a*2": (lambda: a * 2.0, (k, p, flags)), "2*a": (lambda: 2.0 * a, (k, p, flags)), "times_scalar": (lambda: a.times_scalar(3.0), (k, p, flags)),
                    "norm": (lambda: a.norm(), (0, 0, flags)), "normalize": (lambda: a.normalize(), (k, p, flags)),
                    "average_pool": (lambda: a.average_pool(2), (k, p, flags)), "max_pool": (lambda: a.max_pool(2), (k, p, flags)),
                    "unpool": (lambda: a.unpool(2), (k, p, flags)),
                    "jit": (lambda: __import__("jax").jit(lambda q: q)(a), (k, p, flags)),
                    "zeros": (lambda: geom.GeometricImage.zeros(N, k, p, D, flags), (k, p, flags)),
                    "fill": (lambda: geom.GeometricImage.fill(N, p, D, jnp.ones((D,) * k), flags), (k, p, flags)),
                }
                if k == 0:  # (the library only defines activations on k=0 images)
                    cases["activation_function"] = (lambda: a.activation_function(jnp.tanh), (k, p, flags))
                if k >= 2:
                    cases["transpose"] = (lambda: a.transpose(tuple(range(k))[::-1]), (k, p, flags))
                    cases["contract"] = (lambda: a.contract(0, k - 1), (k - 2, p, flags))
                    cases["multicontract"] = (lambda: a.multicontract(((0, 1),)), (k - 2, p, flags))
                if k >= D - 1:
                    cases["levi_civita_contract"] = (lambda: a.levi_civita_contract(tuple(range(D - 1)) if D > 2 else 0), (k - D + 2, (p + 1) % 2, flags))
                for k2, p2 in ((0, 1), (1, 0), (1, 1)):
                    if k + k2 <= 3:
                        c = geom.GeometricImage(jnp.ones(shape + (D,) * k2), p2, D, flags)
                        cases[f"a*c[{k2},{p2}]"] = (lambda c=c: a * c, (k + k2, (p + p2) % 2, flags))
                        f_ = geom.GeometricImage(jnp.ones((3,) * D + (D,) * k2), p2, D, flags)
                        cases[f"convolve_with[{k2},{p2}]"] = (lambda f_=f_: a.convolve_with(f_), (k + k2, (p + p2) % 2, flags))
                for g in gs[:4]:
                    cases[f"times_group_element[{gkey(g)}]"] = (lambda g=g: a.times_group_element(np.asarray(g)), (k, p, tuple(perm_axes(g, flags))))
                for nm, (fn, (ek, ep, ef)) in cases.items():
                    try:
                        o = fn()
                        got = (o.k, o.parity, o.D, tuple(o.is_torus))
                    except Exception as e:  # noqa: BLE001
                        got = f"raised {type(e).__name__}: {str(e)[:80]}"
                    cx.structural(f"declared type of {nm} on (k={k},p={p},flags={flags})", got == (ek, ep, D, tuple(ef)),
                                  f"declared (k, parity, D, is_torus) = {got}, expected {(ek, ep, D, tuple(ef))}",
                                  key=f"meta:{nm}:D={D}:k={k}:p={p}:flags={flags}")


def _shift(pair, removed):
    """Indices of `pair` after the two indices in `removed` have been contracted away."""
    f = lambda i: i - sum(1 for r in removed if r < i)
    return (f(pair[0]), f(pair[1]))
