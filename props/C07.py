"""C07 — equivariant networks are equivariant end to end."""
from __future__ import annotations

import itertools
import random

import numpy as np

from props.common import group_elements, gkey, pairwise_cover
from props import layers_common as LC

INFO = {
    "explanation": "Every network class is built by its real constructor in equivariant mode; ALL array leaves other than the invariant filter bank "
                   "(conv weights and biases, norm scales/biases, vector-neuron mixing weights) and all input entries are z3 Reals; the real "
                   "__call__ (600-1300 jaxpr equations) is executed symbolically as a whole and z3 decides model(g.x) = g.model(x) per output "
                   "block with the type named in the requested signature, and shift-commutation on toroidal inputs (U-Net: multiples of its "
                   "pooling factor).  Tractable because intermediate polynomials are let-abstracted into hash-consed definition atoms "
                   "(refined on demand), max-pool selection is an order-independent atom (unique-maximiser precondition), eigh is the "
                   "contract stub of C08, and float constants (eps, activation constants, filter magnitudes) are abstract constants.",
    "functions": ["models.ConvBlock.__call__", "models.ResNet.__call__", "models.DilResNet.__call__", "models.UNet.__call__", "models.make_conv",
                  "models.handle_activation", "ml.ConvContract.__call__", "ml.LayerNorm.__call__", "ml.VectorNeuronNonlinear.__call__",
                  "ml.MaxNormPool.__call__", "geom.signature_union", "MultiImage.__add__", "MultiImage.concat", "MultiImage.copy"],
    "bounds": {
        "quick": "classes {ConvBlock (both orders, +-norm), ResNet, DilResNet, UNet}; depth {1,2}; blocks 1; downsamples 1; activation {relu, gelu, tanh, None}; "
                 "norm {on, off}; preactivation {on, off}; bias {auto, mean, False}; 4 signatures incl. pseudo-types; torus {True, False}; d=2 N=4, "
                 "generators of B_2 (all 8 g on the core cells); d=3 N=4 ResNet with 3 generators; pairwise-covering core + seeded cells",
        "thorough": "all 8 g everywhere, 120 seeded cells, downsamples 2 (N=8), d=3 UNet",
    },
    "outside": ["the spectral lemma behind eigh (stub contract, see C08)", "norm ties inside a pooling patch (precondition)", "float32 rounding",
                "depth/blocks beyond the bound; N beyond 8"],
    "assumptions": ["let-abstraction / abstract constants / max-pool selection atoms are sound abstractions for `unsat`; a `sat` is only reported after "
                    "it reproduces on the real float code", "eigh contract as in C08", "invariant filter bank concrete (its invariance is C03)"],
}

SIGS = [
    ([((0, 0), 1), ((1, 0), 1)], [((1, 0), 1)]),
    ([((0, 1), 1), ((1, 0), 1)], [((0, 0), 1), ((1, 1), 1)]),
    ([((1, 1), 1)], [((0, 1), 1), ((1, 0), 1)]),
    ([((0, 0), 2)], [((0, 0), 1), ((2, 0), 1)]),
    ([((1, 0), 1), ((0, 0), 1)], [((1, 0), 1), ((0, 1), 1), ((0, 0), 1)]),   # types listed (and stored) out of sorted order
]


def cells(tier, seed):
    axes = {
        "cls": ["resnet", "dil", "unet", "block", "block_pre"],
        "depth": [1, 2],
        "act": ["relu", "gelu", "tanh", None],
        "norm": [True, False],
        "pre": [True, False],
        "bias": ["auto", "mean", False],
        "sig": [0, 1, 2, 3, 4],
        "torus": [True, False],
    }
    core = pairwise_cover(axes, seed=7)
    rng = random.Random(seed + 7)
    names = list(axes)
    extra = [dict(zip(names, [rng.choice(axes[n]) for n in names])) for _ in range(6 if tier == "quick" else 120)]
    out, seen = [], set()
    for i, c in enumerate(core + extra):
        c = dict(c)
        c.update(D=2, N=4, down=1)
        if c["sig"] == 3 and c["norm"]:
            c["norm"] = False  # equivariant group norm is not implemented for k=2 mid types
        c["gs"] = "all" if (tier == "thorough" or i % 5 == 0) else "generators"
        k = repr(sorted((a, repr(b)) for a, b in c.items()))
        if k not in seen:
            seen.add(k)
            out.append(c)
    out.append({"cls": "resnet", "depth": 1, "act": "relu", "norm": True, "pre": True, "bias": "auto", "sig": 0, "torus": True, "D": 3, "N": 4, "down": 1,
                "gs": "generators"})
    out.append({"cls": "block", "depth": 1, "act": "gelu", "norm": False, "pre": False, "bias": "mean", "sig": 1, "torus": True, "D": 3, "N": 3, "down": 1,
                "gs": "generators"})
    if tier == "thorough":
        out.append({"cls": "unet", "depth": 1, "act": "relu", "norm": True, "pre": False, "bias": "auto", "sig": 0, "torus": True, "D": 2, "N": 8, "down": 2, "gs": "all"})
        out.append({"cls": "unet", "depth": 1, "act": "relu", "norm": False, "pre": False, "bias": "auto", "sig": 0, "torus": True, "D": 3, "N": 4, "down": 1,
                    "gs": "generators"})
    return out


def exhaustive(tier):
    return False


def build_model(cfg):
    import jax
    import ginjax.geometric as geom
    import ginjax.ml  # noqa: F401
    import ginjax.models as models
    D = cfg["D"]
    in_sig, out_sig = SIGS[cfg["sig"]]
    in_sig = [(tuple(q), c) for q, c in in_sig]
    out_sig = [(tuple(q), c) for q, c in out_sig]
    if D == 3:
        in_sig = [(q, c) for q, c in in_sig if q[0] <= 1]
        out_sig = [(q, c) for q, c in out_sig if q[0] <= 1]
    kmax = 2 * max([q[0] for q, _ in in_sig + out_sig])
    bank = LC.bank(D, 3, list(range(max(kmax, 2) + 1)), [0, 1], "B")
    key = jax.random.PRNGKey(1)
    cls = cfg["cls"]
    if cls == "block_pre":
        # pre-activation order applies the norm / nonlinearity built for the OUTPUT types to the input: same types both sides
        types = sorted({q for q, _ in in_sig} | {q for q, _ in out_sig})
        in_sig = [(q, 2) for q in types]
        out_sig = [(q, 2) for q in types]
    ik, ok = LC.sig(in_sig), LC.sig(out_sig)
    act = cfg["act"]
    if cls == "resnet":
        m = models.ResNet(D, ik, ok, depth=cfg["depth"], num_blocks=1, num_conv=1, use_bias=cfg["bias"], activation_f=act, equivariant=True,
                          conv_filters=bank, use_group_norm=cfg["norm"], preactivation_order=cfg["pre"], key=key)
    elif cls == "dil":
        m = models.DilResNet(D, ik, ok, depth=cfg["depth"], num_blocks=1, use_bias=cfg["bias"], activation_f=act, equivariant=True,
                             conv_filters=bank, use_group_norm=cfg["norm"], key=key)
    elif cls == "unet":
        up = LC.bank(D, 2, list(range(max(kmax, 2) + 1)), [0, 1], "B")
        m = models.UNet(D, ik, ok, depth=cfg["depth"], num_downsamples=cfg["down"], num_conv=1, use_bias=cfg["bias"],
                        activation_f=act if act is not None else "relu", equivariant=True, conv_filters=bank, upsample_filters=up,
                        use_group_norm=cfg["norm"], key=key)
    else:
        m = models.ConvBlock(D, ik, ok, cfg["bias"], act, True, bank, use_group_norm=cfg["norm"] and all(q[0] <= 1 for q, _ in out_sig),
                             preactivation_order=(cls == "block_pre") and all(q[0] <= 1 for q, _ in in_sig), key=key)
    return m, in_sig, out_sig


def run_cell(cfg, cx, prebuilt=None):
    import jax.numpy as jnp
    from jxsmt import sym as S, interp as I, refs, stubs

    LC.enable_network_mode()
    D, N = cfg["D"], cfg["N"]
    m, in_sig, out_sig = prebuilt if prebuilt is not None else build_model(cfg)
    order = [q for q, _ in in_sig]
    torus = bool(cfg["torus"])
    P, f, info = LC.symbolic_model(m, S)
    if cfg["cls"] == "block_pre" and cfg["norm"]:
        pass
    x = {q: S.var_array(f"x{q[0]}{q[1]}", (c,) + (N,) * D + (D,) * q[0]) for q, c in in_sig}
    meta = {}

    def call(ps, xb):
        out = f(ps, xb, order, D, torus)
        meta.update(sig=out.get_signature(), D=out.D, is_torus=out.is_torus, dims=out.get_spatial_dims())
        return dict(out.data)
    ckey = ":".join(f"{a}={cfg[a]}" for a in ("cls", "depth", "act", "norm", "pre", "bias", "sig", "torus", "D", "N", "down"))
    tr = I.Traced(call, P, x)
    base, blog = LC.run_with_contract(I, stubs, tr, (P, x))
    cx.structural("output signature", dict(meta["sig"]) == dict(out_sig) and meta["D"] == D and tuple(meta["dims"]) == (N,) * D,
                  f"got {meta['sig']} dims {meta['dims']}, requested {out_sig}", key=f"sig:{ckey}")

    def real(vals, xf):
        ps = LC.concrete_params(cx, P, info, vals)
        return {q: np.asarray(v) for q, v in call(ps, {q: jnp.asarray(v) for q, v in xf.items()}).items()}

    for g in group_elements(D, cfg["gs"]):
        gx = {q: S.Sym(refs.ref_action(D, v.a, q[1], g, lead=1)) for q, v in x.items()}
        lhs, _ = LC.run_with_contract(I, stubs, tr, (P, gx), contract=(g, blog))
        for q in base:
            def replay(vals, bvals, g=g, q=q):
                xf = {r: cx.conc(v, vals) for r, v in x.items()}
                l = real(vals, {r: refs.ref_action(D, v, r[1], g, lead=1) for r, v in xf.items()})
                r_ = real(vals, xf)
                return cx.deviates(l[q], refs.ref_action(D, r_[q], q[1], g, lead=1), rtol=5e-3)
            cx.equal(f"model(g.x) = g.model(x) [{q},g={gkey(g)}]", lhs[q], refs.ref_action(D, base[q].a, q[1], g, lead=1), replay=replay,
                     key=f"eq:{ckey}:t={q}:g={gkey(g)}")
    # translations on toroidal inputs: every unit shift for the ResNets / blocks, multiples of the pooling factor for the U-Net
    if torus:
        step = 2 ** cfg["down"] if str(cfg["cls"]).endswith("unet") else 1
        eye = np.eye(D, dtype=int)
        for d in range(D):
            rx = {q: S.Sym(np.roll(v.a, step, axis=1 + d)) for q, v in x.items()}
            lhs, _ = LC.run_with_contract(I, stubs, tr, (P, rx), contract=(eye, blog))
            for q in base:
                def replay_t(vals, bvals, d=d, q=q):
                    xf = {r: cx.conc(v, vals) for r, v in x.items()}
                    l = real(vals, {r: np.roll(v, step, axis=1 + d) for r, v in xf.items()})
                    return cx.deviates(l[q], np.roll(real(vals, xf)[q], step, axis=1 + d), rtol=5e-3)
                cx.equal(f"translation by {step} [{q},axis={d}]", lhs[q], np.roll(base[q].a, step, axis=1 + d), replay=replay_t,
                         key=f"shift:{ckey}:t={q}:axis={d}")
    # canary: an output block declared with the other parity under a reflection (must be refuted, and replay)
    g = [h for h in group_elements(D) if refs.det_signed_perm(h) == -1][0]
    gx = {q: S.Sym(refs.ref_action(D, v.a, q[1], g, lead=1)) for q, v in x.items()}
    lhs, _ = LC.run_with_contract(I, stubs, tr, (P, gx), contract=(g, blog))
    q0 = list(base)[0]

    def replay_c(vals, bvals):
        xf = {r: cx.conc(v, vals) for r, v in x.items()}
        l = real(vals, {r: refs.ref_action(D, v, r[1], g, lead=1) for r, v in xf.items()})
        return cx.deviates(l[q0], refs.ref_action(D, real(vals, xf)[q0], q0[1] + 1, g, lead=1), rtol=5e-3)
    cx.canary("canary[wrong output parity]", lhs[q0], refs.ref_action(D, base[q0].a, q0[1] + 1, g, lead=1), replay=replay_c)
