"""C06 — the equivariant linear layer is equivariant for every parameter value.
(Also hosts the cell generator / builder shared with C11.)"""
from __future__ import annotations

import itertools
import random

import numpy as np

from props.common import group_elements, gkey, perm_axes, pairwise_cover
from props import layers_common as LC

INFO = {
    "explanation": "ml.ConvContract instances are built by the real constructor from the real invariant filter bank; weights, biases and inputs "
                   "are z3 Reals (the filter bank stays the concrete generated one); the real __call__ is traced and executed symbolically; "
                   "z3 (QF_NRA) decides layer(g.x) = g.layer(x) block by block with the declared output types for every g of the bank's group, "
                   "and shift-commutation on toroidal inputs.",
    "functions": ["ml.ConvContract.__init__", "ml.ConvContract.__call__", "ml.ConvContract.individual_convolve", "geom.convolve_contract",
                  "geom.convolve", "geom.get_invariant_filters"],
    "bounds": {
        "quick": "d=2 N=4 (N=3 with k=2 inputs): 6 signatures over {(0,0),(0,1),(1,0),(1,1),(2,0)} with unequal channel counts 1..2; bias in "
                 "{auto, mean, scalar, True, False}; padding {None, SAME, VALID, explicit}; rhs_dilation {1,2}; lhs_dilation {off, 2 + explicit padding "
                 "(M=3), M=2 bank as in UNet}; torus {all, none, mixed}; banks for B_2, rotations, C2^2; all g of the bank's group. d=3 N=3 k<=1, "
                 "generators.  Pairwise-covering core + seeded sample.",
        "thorough": "same axes, 250 seeded cells; d=3 all 48 g on 4 cells",
    },
    "outside": ["float32 rounding", "k>2 inputs/outputs", "stride != 1 for equivariance"],
    "assumptions": ["filter-bank entries at the exact rational value of the produced float32 (their exact invariance is C03)"],
}

SIGS2 = [
    ([((0, 0), 2), ((1, 0), 1)], [((0, 0), 1), ((1, 0), 2)]),
    ([((0, 1), 1), ((1, 1), 2)], [((0, 0), 2), ((1, 1), 1), ((0, 1), 1)]),
    ([((1, 0), 1), ((2, 0), 1)], [((1, 0), 1), ((0, 0), 1)]),
    ([((0, 0), 1)], [((2, 0), 1), ((1, 1), 1), ((0, 1), 2)]),
    ([((1, 0), 2), ((0, 1), 1)], [((1, 1), 1), ((0, 0), 1)]),
    ([((1, 1), 1)], [((1, 0), 2)]),
]
SIGS3 = [
    ([((0, 0), 1), ((1, 0), 1)], [((0, 0), 1), ((1, 0), 1)]),
    ([((1, 1), 1)], [((0, 1), 1), ((1, 0), 1)]),
    ([((0, 1), 1)], [((1, 1), 2)]),
]


def gen_cells(tier, seed, with_stride=False):
    axes = {
        "sig": list(range(len(SIGS2))),
        "bias": ["auto", "mean", "scalar", True, False],
        "pad": ["none", "SAME", "VALID", "explicit"],
        "rdil": [1, 2],
        "ldil": ["off", "M3", "M2", "M3n"],   # M3n: image dilation 2 with a NAMED padding (none / SAME / VALID), 3x3 filters
        "torus": ["all", "none", "mixed"],
        "G": ["B", "rot", "C2"],
        "xorder": [0, 1],
    }
    if with_stride:
        axes["stride"] = [1, 2]
    core = pairwise_cover(axes, seed=23)
    rng = random.Random(seed * 31 + 1)
    names = list(axes)
    extra_n = 10 if tier == "quick" else 250
    extra = [dict(zip(names, [rng.choice(axes[n]) for n in names])) for _ in range(extra_n)]
    out = []
    seen = set()
    for c in core + extra:
        c = dict(c)
        c["D"] = 2
        c.setdefault("stride", 1)
        if c["ldil"] in ("M3", "M2"):
            c["pad"] = "explicit"  # literal padding, as the code recommends with image dilation
            c["rdil"] = 1
        if c["ldil"] == "M3n":
            c["rdil"] = 1
        if c["ldil"] == "M2" and c["G"] != "B":
            c["G"] = "B"
        k = repr(sorted(c.items(), key=lambda kv: kv[0]))
        if k in seen:
            continue
        seen.add(k)
        out.append(c)
    for i in range(len(SIGS3)):
        for bias, pad, torus in [("auto", "none", "all"), ("mean", "SAME", "none"), (False, "VALID", "mixed")][: 2 if tier == "quick" else 3]:
            out.append({"D": 3, "sig": i, "bias": bias, "pad": pad, "rdil": 1, "ldil": "off", "torus": torus, "G": "B", "stride": 1})
    return out


def cells(tier, seed):
    return gen_cells(tier, seed)


def exhaustive(tier):
    return False


def build(cfg):
    """Real layer + symbolic parameters / inputs for a cell."""
    import jax
    import jax.numpy as jnp
    import equinox as eqx
    import ginjax.geometric as geom
    import ginjax.ml as ml
    from jxsmt import sym as S

    D = cfg["D"]
    in_sig, out_sig = (SIGS2 if D == 2 else SIGS3)[cfg["sig"]]
    in_sig = [(tuple(kp), c) for kp, c in in_sig]
    out_sig = [(tuple(kp), c) for kp, c in out_sig]
    maxk = max(k for (k, _), _ in in_sig) + max(k for (k, _), _ in out_sig)
    M = 2 if cfg["ldil"] == "M2" else 3
    bank = LC.bank(D, M, list(range(maxk + 1)), [0, 1], cfg["G"])
    if D == 2:
        N = 3 if any(k == 2 for (k, _), _ in in_sig) else 4
        shape = (N, N) if cfg["torus"] != "mixed" else (N, N)
    else:
        shape = (3, 3, 3)
    if cfg["pad"] == "VALID" and cfg["rdil"] == 2 and cfg["ldil"] == "off":
        shape = (5,) * D  # keep the 'valid' output non-empty under filter dilation 2
    if cfg["ldil"] != "off":
        shape = (2,) * D if D == 3 else (3, 2)
    torus = {"all": (True,) * D, "none": (False,) * D, "mixed": tuple(i % 2 == 0 for i in range(D))}[cfg["torus"]]
    rdil = (cfg["rdil"],) * D
    ldil = None if cfg["ldil"] == "off" else (2,) * D
    pad = {"none": None, "SAME": "SAME", "VALID": "VALID", "explicit": ((1, 1),) * D}[cfg["pad"]]
    if cfg["ldil"] == "M3" or (cfg["ldil"] == "M3n" and cfg["pad"] == "explicit"):
        pad = ((2, 2),) * D
    if cfg["ldil"] == "M2":
        pad = ((1, 1),) * D
    stride = cfg.get("stride", 1)
    layer = ml.ConvContract(LC.sig(in_sig), LC.sig(out_sig), bank, cfg["bias"], stride, pad, ldil, rdil, key=jax.random.PRNGKey(0))
    W = {ik: {okk: S.var_array(f"W{ik[0]}{ik[1]}_{okk[0]}{okk[1]}", w.shape) for okk, w in d.items()} for ik, d in layer.weights.items()}
    B = {okk: S.var_array(f"b{okk[0]}{okk[1]}", b.shape) for okk, b in layer.bias.items()}
    x = LC.sym_input(S, in_sig, D, shape)
    filters = {kp: np.asarray(v, dtype=np.float64) for kp, v in bank.items()}
    order = [kp for kp, _ in in_sig]
    if cfg.get("xorder"):
        order = order[::-1]
    return dict(D=D, in_sig=in_sig, out_sig=out_sig, bank=bank, filters=filters, shape=shape, torus=torus, rdil=rdil, ldil=ldil, pad=pad,
                stride=stride, layer=layer, W=W, B=B, x=x, M=M, order=order)


def apply_layer(b, W, B, xblocks, torus, meta=None):
    import equinox as eqx
    import ginjax.geometric as geom
    l2 = LC.layer_with(eqx, b["layer"], W, B)
    # the input MultiImage is built HERE, in the cell's storage order (dict arguments are key-sorted by JAX)
    out = l2(geom.MultiImage({kp: xblocks[kp] for kp in b["order"]}, b["D"], torus))
    if meta is not None:
        meta["keys"] = list(out.keys())
        meta["sig"] = out.get_signature() if len(out.keys()) else ()
        meta["D"] = out.D
        meta["is_torus"] = out.is_torus
    return dict(out.data)


def conc_params(cx, b, vals):
    import jax.numpy as jnp
    W = {ik: {ok: jnp.asarray(cx.conc(w, vals)) for ok, w in d.items()} for ik, d in b["W"].items()}
    B = {ok: jnp.asarray(cx.conc(v, vals)) for ok, v in b["B"].items()}
    x = {kp: cx.conc(v, vals) for kp, v in b["x"].items()}
    return W, B, x


def cfg_key(cfg):
    return ":".join(f"{k}={cfg.get(k)}" for k in ("D", "sig", "bias", "pad", "rdil", "ldil", "torus", "G", "stride", "xorder"))


def run_cell(cfg, cx):
    import jax.numpy as jnp
    from jxsmt import sym as S, interp as I, refs

    b = build(cfg)
    D = b["D"]
    ckey = cfg_key(cfg)
    meta = {}
    base = I.sym_call(lambda W, B, x: apply_layer(b, W, B, x, b["torus"], meta), b["W"], b["B"], b["x"])
    ops = LC.group_ops(D, cfg["G"])
    if D == 3 and cx.tier == "quick":
        ops = [g for g in group_elements(3, "generators")]
    nonempty = [kp for kp in base if base[kp].size]
    for g in ops:
        t_g = perm_axes(g, b["torus"])
        pad_g = b["pad"]
        gx = {kp: S.Sym(v) for kp, v in LC.act_blocks(refs, D, b["x"], g).items()}
        lhs = I.sym_call(lambda W, B, x: apply_layer(b, W, B, x, t_g), b["W"], b["B"], gx)
        rhs = LC.act_blocks(refs, D, base, g)
        for kp in base:
            def replay(vals, bvals, g=g, kp=kp, t_g=t_g):
                W, B, x = conc_params(cx, b, vals)
                l = apply_layer(b, W, B, {q: jnp.asarray(v) for q, v in LC.act_blocks(refs, D, x, g).items()}, t_g)
                r = apply_layer(b, W, B, {q: jnp.asarray(v) for q, v in x.items()}, b["torus"])
                return cx.deviates(np.asarray(l[kp]), refs.ref_action(D, np.asarray(r[kp]), kp[1], g, lead=1))
            cx.equal(f"equivariant[{kp},g={gkey(g)}]", lhs[kp], rhs[kp], replay=replay, key=f"eq:{ckey}:t={kp}:g={gkey(g)}")
    # canary: one output block declared with the other parity under a reflection of the bank's group
    refl = [g for g in ops if refs.det_signed_perm(g) == -1]
    if refl and nonempty:
        g = refl[0]
        gx = {kp: S.Sym(v) for kp, v in LC.act_blocks(refs, D, b["x"], g).items()}
        lhs = I.sym_call(lambda W, B, x: apply_layer(b, W, B, x, perm_axes(g, b["torus"])), b["W"], b["B"], gx)
        kp = nonempty[0]
        if any(q.t for q in base[kp].a.reshape(-1)):
            cx.canary("canary[wrong output parity]", lhs[kp], refs.ref_action(D, base[kp].a, kp[1] + 1, g, lead=1))
    # translations on toroidal inputs (no image dilation, stride 1)
    if b["ldil"] is None and cfg["pad"] == "none" and any(b["torus"]):
        for d in [i for i in range(D) if b["torus"][i]]:
            sh = 1
            rx = {kp: S.Sym(np.roll(v.a, sh, axis=1 + d)) for kp, v in b["x"].items()}
            lhs = I.sym_call(lambda W, B, x: apply_layer(b, W, B, x, b["torus"]), b["W"], b["B"], rx)
            for kp in base:
                def replay_t(vals, bvals, d=d, kp=kp):
                    W, B, x = conc_params(cx, b, vals)
                    l = apply_layer(b, W, B, {q: jnp.asarray(np.roll(v, 1, axis=1 + d)) for q, v in x.items()}, b["torus"])
                    r = apply_layer(b, W, B, {q: jnp.asarray(v) for q, v in x.items()}, b["torus"])
                    return cx.deviates(np.asarray(l[kp]), np.roll(np.asarray(r[kp]), 1, axis=1 + d))
                cx.equal(f"translation[{kp},axis={d}]", lhs[kp], np.roll(base[kp].a, sh, axis=1 + d), replay=replay_t,
                         key=f"shift:{ckey}:t={kp}:axis={d}")
