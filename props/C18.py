"""C18 — losses compute their definition, pair blocks by type and are symmetry-invariant."""
from __future__ import annotations

import itertools

import numpy as np

from props.common import group_elements, gkey

INFO = {
    "explanation": "smse_loss, timestep_smse_loss and normalized_smse_loss are traced and executed symbolically with every prediction and target "
                   "entry a z3 Real and compared (QF_NRA) with the definitions written out in the harness; pairing by type is checked under every "
                   "insertion order / jit round trip of either argument (including type pairs with equal block shapes); loss(x,x)=0; "
                   "'loss < 0' is unsat; loss(g.x, g.y) = loss(x, y) for every g; sum over steps of the per-timestep loss = total.",
    "functions": ["ml.smse_loss", "ml.timestep_smse_loss", "ml.normalized_smse_loss", "geom.norm"],
    "bounds": {
        "quick": "batch<=2, steps<=2, channels<=2; d=2 shapes (2,3) and (2,2); d=3 (2,2,2) with 4 generators; all reduce modes; type sets "
                 "{(1,0),(1,1)} (equal shapes), {(0,0)x2,(1,0)x1}, {(0,1),(1,0),(0,0)}; all insertion-order pairs x {ctor, jit}",
        "thorough": "adds batch 3, steps 3, all 8 g on (2,3), all 48 g in d=3",
    },
    "outside": ["float32 rounding", "reduce='max' on exact ties between batch entries (first-index tie-breaking assumed away)"],
    "assumptions": ["normalised loss: denominators norm^2 + eps are positive (sqrt axioms)"],
}

TYPESETS = [
    [((1, 0), 1), ((1, 1), 1)],
    [((0, 0), 2), ((1, 0), 2)],
    [((0, 1), 1), ((1, 0), 1), ((0, 0), 1)],
    [((2, 0), 1), ((0, 0), 1)],     # a tensor block of order 2: its norm runs over BOTH tensor indices (Frobenius)
]


def cells(tier, seed):
    out = []
    for ti, ts in enumerate(TYPESETS):
        perms = list(itertools.permutations(range(len(ts))))
        for ox, oy in itertools.product(perms, perms):
            for hist in (("ctor", "ctor"), ("jit", "ctor"), ("ctor", "jit")):
                if tier == "quick" and len(perms) > 2 and (perms.index(ox) + perms.index(oy)) % 3 and hist != ("ctor", "ctor"):
                    continue
                out.append({"kind": "pair", "ts": ti, "ox": list(ox), "oy": list(oy), "hist": list(hist), "D": 2, "shape": (2, 3)})
    for ti in range(len(TYPESETS)):
        for steps in (1, 2) if tier == "quick" else (1, 2, 3):
            out.append({"kind": "steps", "ts": ti, "steps": steps, "D": 2, "shape": (2, 2), "batch": 2})
        out.append({"kind": "inv", "ts": ti, "D": 2, "shape": (2, 3), "gs": "all" if tier == "thorough" else "generators"})
        out.append({"kind": "inv", "ts": ti, "D": 3, "shape": (2, 2, 2), "gs": "all" if tier == "thorough" else "generators"})
        out.append({"kind": "sign", "ts": ti, "D": 2, "shape": (2, 2)})
    return out


def exhaustive(tier):
    return False


def _mk(geom, jax, D, blocks, ts, order, hist):
    m = geom.MultiImage({ts[i][0]: blocks[ts[i][0]] for i in order}, D, True)
    if hist == "jit":
        m = jax.jit(lambda q: q)(m)
    return m


def _sq(a):
    return a * a


def run_cell(cfg, cx):
    import jax
    import jax.numpy as jnp
    import ginjax.geometric as geom
    import ginjax.ml as ml
    from jxsmt import sym as S, interp as I, refs
    from fractions import Fraction

    D, shape = cfg["D"], tuple(cfg["shape"])
    ts = [(tuple(kp), c) for kp, c in TYPESETS[cfg["ts"]]]
    kind = cfg["kind"]
    npx = int(np.prod(shape))
    eps = Fraction(float(np.float32(1e-5)))

    def defs(x, y, batch):
        """Definitions: per batch entry, sum over types/channels/components of squared error, mean over pixels."""
        per = []
        for b in range(batch):
            acc = S.ZERO
            for kp, c in ts:
                d = (x[kp][b] - y[kp][b]).reshape(-1)
                acc = acc + sum((_sq(q) for q in d), S.ZERO)
            per.append(acc * Fraction(1, npx))
        return per

    if kind == "pair":
        batch = 2
        x = {kp: S.var_array(f"x{kp[0]}{kp[1]}", (batch, c) + shape + (D,) * kp[0]) for kp, c in ts}
        y = {kp: S.var_array(f"y{kp[0]}{kp[1]}", (batch, c) + shape + (D,) * kp[0]) for kp, c in ts}
        ckey = f"ts={cfg['ts']}:ox={cfg['ox']}:oy={cfg['oy']}:hist={cfg['hist']}"
        per = defs({k: v.a for k, v in x.items()}, {k: v.a for k, v in y.items()}, batch)
        mean = sum(per, S.ZERO) * Fraction(1, batch)
        losses = {
            "smse[mean]": (lambda a, b: ml.smse_loss(a, b), np.array(mean, dtype=object)),
            "smse[None]": (lambda a, b: ml.smse_loss(a, b, reduce=None), np.array(per, dtype=object)),
            "timestep[mean,1]": (lambda a, b: ml.timestep_smse_loss(a, b, 1), np.array([mean], dtype=object)),
            "timestep[None,1]": (lambda a, b: ml.timestep_smse_loss(a, b, 1, reduce=None), np.array([[q] for q in per], dtype=object)),
        }
        # normalised: each channel-pixel error divided by the target's squared norm there (+eps)
        nper = []
        for b in range(batch):
            acc = S.ZERO
            for kp, c in ts:
                for ch in range(c):
                    for px in np.ndindex(*shape):
                        tv = np.asarray(y[kp].a[(b, ch) + px], dtype=object).reshape(-1)
                        xv = np.asarray(x[kp].a[(b, ch) + px], dtype=object).reshape(-1)
                        nrm = S.sqrt(sum((_sq(q) for q in tv), S.ZERO))
                        den = S.recip(nrm * nrm + eps)
                        acc = acc + sum((_sq(a - t) for a, t in zip(xv, tv)), S.ZERO) * den
            nper.append(acc * Fraction(1, npx))
        losses["normalized"] = (lambda a, b: ml.normalized_smse_loss(a, b), np.array(sum(nper, S.ZERO) * Fraction(1, batch), dtype=object))
        for nm, (fn, exp) in losses.items():
            def run(xb, yb, fn=fn):
                return fn(_mk(geom, jax, D, xb, ts, cfg["ox"], cfg["hist"][0]), _mk(geom, jax, D, yb, ts, cfg["oy"], cfg["hist"][1]))

            def replay(vals, bvals, run=run, exp=exp):
                xb = {q: jnp.asarray(cx.conc(v, vals)) for q, v in x.items()}
                yb = {q: jnp.asarray(cx.conc(v, vals)) for q, v in y.items()}
                try:
                    got = np.asarray(run(xb, yb))
                except Exception as e:  # noqa: BLE001
                    return True, f"raises {type(e).__name__}: {str(e)[:100]}"
                xs = {q: np.asarray(v, dtype=np.float64) for q, v in xb.items()}
                ys = {q: np.asarray(v, dtype=np.float64) for q, v in yb.items()}
                per_f = [sum(float(np.sum((xs[kp][b] - ys[kp][b]) ** 2)) for kp, _ in ts) / npx for b in range(batch)]
                if exp.shape == ():
                    want = np.array(np.mean(per_f))
                elif exp.shape == (batch,):
                    want = np.array(per_f)
                elif exp.shape == (1,):
                    want = np.array([np.mean(per_f)])
                else:
                    want = np.array([[q] for q in per_f])
                return cx.deviates(got, want)
            def replay_norm(vals, bvals, run=run):
                # the witness, and the same prediction against the target at smaller amplitudes (down to an identically zero
                # target): a defect in how eps enters the denominator only shows where |target|^2 is comparable with eps
                xb0 = {q: cx.conc(v, vals) for q, v in x.items()}
                yb0 = {q: cx.conc(v, vals) for q, v in y.items()}
                epsf = float(np.float32(1e-5))
                res = (False, "")
                for amp in (1.0, 1e-2, 1e-3, 1e-4, 0.0):
                    xb = {q: jnp.asarray(v) for q, v in xb0.items()}
                    yb = {q: jnp.asarray((v * amp).astype(np.float32)) for q, v in yb0.items()}
                    try:
                        got = np.asarray(run(xb, yb))
                    except Exception as e:  # noqa: BLE001
                        return True, f"raises {type(e).__name__}: {str(e)[:100]}"
                    tot = 0.0
                    for kp, c in ts:
                        xs, ys = np.asarray(xb[kp], dtype=np.float64), np.asarray(yb[kp], dtype=np.float64)
                        tax = tuple(range(2 + D, xs.ndim))
                        n2 = np.sum(ys ** 2, axis=tax, keepdims=True) if tax else ys ** 2
                        tot += float(np.sum((xs - ys) ** 2 / (n2 + epsf)))
                    want = np.array(tot / npx / batch)
                    res = cx.deviates(got, want)
                    if res[0]:
                        return True, f"{res[1]} (witness target scaled by {amp})"
                return res
            rp = replay if nm != "normalized" else replay_norm
            try:
                got = I.sym_call(run, x, y)
            except I.Unsupported:
                raise
            except Exception as e:  # noqa: BLE001  real code raised while traced: pairing failure for differently ordered arguments
                def replay_exc(vals, bvals, run=run):
                    try:
                        run({q: jnp.ones(v.shape) for q, v in x.items()}, {q: jnp.ones(v.shape) for q, v in y.items()})
                    except Exception as e2:  # noqa: BLE001
                        return True, f"raises {type(e2).__name__}: {str(e2)[:120]}"
                    return False, "did not raise"
                cx.structural(f"{nm}", False, f"raised {type(e).__name__}: {str(e)[:120]}", replay=replay_exc, key=f"pair:{nm}:{ckey}")
                continue
            cx.equal(nm, got, exp, replay=rp, key=f"pair:{nm}:{ckey}")
        cx.canary("canary[half the definition]", I.sym_call(lambda xb, yb: ml.smse_loss(_mk(geom, jax, D, xb, ts, [0] + list(range(1, len(ts))), "ctor"),
                                                                                          _mk(geom, jax, D, yb, ts, list(range(len(ts))), "ctor")), x, y),
                  np.array(mean * Fraction(1, 2), dtype=object))
        return

    if kind == "steps":
        steps, batch = cfg["steps"], cfg["batch"]
        x = {kp: S.var_array(f"x{kp[0]}{kp[1]}", (batch, c * steps) + shape + (D,) * kp[0]) for kp, c in ts}
        y = {kp: S.var_array(f"y{kp[0]}{kp[1]}", (batch, c * steps) + shape + (D,) * kp[0]) for kp, c in ts}
        mk = lambda bl: geom.MultiImage({kp: bl[kp] for kp, _ in ts}, D, True)
        ckey = f"ts={cfg['ts']}:steps={steps}"
        per_step = np.empty((batch, steps), dtype=object)
        for b in range(batch):
            for t in range(steps):
                acc = S.ZERO
                for kp, c in ts:
                    for ch in range(c):
                        d = (x[kp].a[b, ch * steps + t] - y[kp].a[b, ch * steps + t]).reshape(-1)
                        acc = acc + sum((_sq(q) for q in d), S.ZERO)
                per_step[b, t] = acc * Fraction(1, npx)
        got_none = I.sym_call(lambda xb, yb: ml.timestep_smse_loss(mk(xb), mk(yb), steps, reduce=None), x, y)
        cx.equal("timestep[None]", got_none, per_step, key=f"steps:none:{ckey}",
                 replay=lambda vals, bvals: cx.deviates(np.asarray(ml.timestep_smse_loss(mk({q: jnp.asarray(cx.conc(v, vals)) for q, v in x.items()}),
                                                                                              mk({q: jnp.asarray(cx.conc(v, vals)) for q, v in y.items()}), steps, reduce=None)),
                                                        cx.expected(per_step, vals)))
        got_mean = I.sym_call(lambda xb, yb: ml.timestep_smse_loss(mk(xb), mk(yb), steps), x, y)
        cx.equal("timestep[mean]", got_mean, np.array([sum(per_step[:, t], S.ZERO) * Fraction(1, batch) for t in range(steps)], dtype=object),
                 key=f"steps:mean:{ckey}",
                 replay=lambda vals, bvals: cx.deviates(np.asarray(ml.timestep_smse_loss(mk({q: jnp.asarray(cx.conc(v, vals)) for q, v in x.items()}),
                                                                                              mk({q: jnp.asarray(cx.conc(v, vals)) for q, v in y.items()}), steps)),
                                                        cx.expected(per_step, vals).mean(axis=0)))
        tot = I.sym_call(lambda xb, yb: ml.smse_loss(mk(xb), mk(yb), reduce=None), x, y)
        cx.equal("sum over steps == total", np.array([sum(got_none.a[b], S.ZERO) for b in range(batch)], dtype=object), tot,
                 key=f"steps:sum:{ckey}",
                 replay=lambda vals, bvals: cx.deviates(
                     np.asarray(ml.timestep_smse_loss(mk({q: jnp.asarray(cx.conc(v, vals)) for q, v in x.items()}),
                                                      mk({q: jnp.asarray(cx.conc(v, vals)) for q, v in y.items()}), steps, reduce=None)).sum(axis=1),
                     np.asarray(ml.smse_loss(mk({q: jnp.asarray(cx.conc(v, vals)) for q, v in x.items()}),
                                             mk({q: jnp.asarray(cx.conc(v, vals)) for q, v in y.items()}), reduce=None))))
        # reduce='max': the row of the batch entry with the largest total (ties assumed away)
        # the per-step losses are let-abstracted (hash-consed by canonical polynomial, so the code's and the definition's coincide
        # exactly when they are the same polynomial): selecting the row with the largest total is then a linear query
        old_thr, I.DEF_THRESHOLD = I.DEF_THRESHOLD, 4
        try:
            got_max = I.sym_call(lambda xb, yb: ml.timestep_smse_loss(mk(xb), mk(yb), steps, reduce="max"), x, y)
            # the rows to select from: the code's own per-entry losses (proved equal to the definition by "timestep[None]" above),
            # executed in the same let-abstracted mode so that they are built from the same atoms as the selection
            per_def = np.asarray(I.sym_call(lambda xb, yb: ml.timestep_smse_loss(mk(xb), mk(yb), steps, reduce=None), x, y).a, dtype=object)
        finally:
            I.DEF_THRESHOLD = old_thr
        totals = [sum(per_def[b], S.ZERO) for b in range(batch)]
        for b in range(batch):
            # strict maximum; the implied non-strict comparison is stated too, so that the first-index argmax guard (<=) is
            # met syntactically instead of through non-linear reasoning
            assum = []
            for o in range(batch):
                if o != b:
                    assum += [S.lt(totals[o], totals[b]), S.le(totals[o], totals[b]), S.bnot(S.lt(totals[b], totals[o])), S.bnot(S.le(totals[b], totals[o]))]
            cx.equal(f"timestep[max] when entry {b} is largest", got_max, per_def[b], assumptions=assum, key=f"steps:max:{b}:{ckey}",
                     replay=lambda vals, bvals, b=b: cx.deviates(
                         np.asarray(ml.timestep_smse_loss(mk({q: jnp.asarray(cx.conc(v, vals)) for q, v in x.items()}),
                                                          mk({q: jnp.asarray(cx.conc(v, vals)) for q, v in y.items()}), steps, reduce="max")),
                         cx.expected(per_step[b], vals)))
        cx.canary("canary[timestep None transposed]", got_none, per_step[::-1] if batch > 1 else per_step * 2)
        return

    mk = lambda bl: geom.MultiImage({kp: bl[kp] for kp, _ in ts}, D, True)
    batch = 1 if kind == "inv" else 2
    x = {kp: S.var_array(f"x{kp[0]}{kp[1]}", (batch, c) + shape + (D,) * kp[0]) for kp, c in ts}
    y = {kp: S.var_array(f"y{kp[0]}{kp[1]}", (batch, c) + shape + (D,) * kp[0]) for kp, c in ts}
    fns = {"smse": lambda a, b: ml.smse_loss(a, b), "timestep": lambda a, b: ml.timestep_smse_loss(a, b, 1),
           "normalized": lambda a, b: ml.normalized_smse_loss(a, b)}
    if kind == "inv":
        for nm, fn in fns.items():
            base = I.sym_call(lambda xb, yb: fn(mk(xb), mk(yb)), x, y)
            for g in group_elements(D, cfg["gs"]):
                gx = {kp: S.Sym(refs.ref_action(D, v.a, kp[1], g, lead=2)) for kp, v in x.items()}
                gy = {kp: S.Sym(refs.ref_action(D, v.a, kp[1], g, lead=2)) for kp, v in y.items()}
                got = I.sym_call(lambda xb, yb: fn(mk(xb), mk(yb)), gx, gy)

                def replay(vals, bvals, g=g, fn=fn):
                    xb = {q: cx.conc(v, vals) for q, v in x.items()}
                    yb = {q: cx.conc(v, vals) for q, v in y.items()}
                    a = fn(mk({q: jnp.asarray(refs.ref_action(D, v, q[1], g, lead=2)) for q, v in xb.items()}),
                           mk({q: jnp.asarray(refs.ref_action(D, v, q[1], g, lead=2)) for q, v in yb.items()}))
                    b = fn(mk({q: jnp.asarray(v) for q, v in xb.items()}), mk({q: jnp.asarray(v) for q, v in yb.items()}))
                    return cx.deviates(np.asarray(a), np.asarray(b))
                cx.equal(f"{nm} invariant[g={gkey(g)}]", got, base, replay=replay, key=f"inv:{nm}:D={D}:ts={cfg['ts']}:g={gkey(g)}")
        return
    # kind == sign: zero on equal arguments, never negative
    for nm, fn in fns.items():
        same = I.sym_call(lambda xb: fn(mk(xb), mk(xb)), x)
        cx.equal(f"{nm}(x,x) == 0", same, np.zeros(same.shape, dtype=object) + S.ZERO, key=f"zero:{nm}:ts={cfg['ts']}")
        val = I.sym_call(lambda xb, yb: fn(mk(xb), mk(yb)), x, y)
        for q in val.a.reshape(-1):
            # lemma per denominator: 1/(norm^2+eps) > 0 (decided with the sqrt/recip axioms), then the sum of
            # squares times positive factors is asked with those factors as positive reals
            from jxsmt.sym import CTX, Poly
            recs = sorted(i for i in q.atoms() if CTX.atoms[i][0] == "recip")
            lem = []
            for i in recs:
                cx.holds(f"{nm}: denominator a{i} positive", S.lt(S.ZERO, Poly({(i,): 1})), key=f"nonneg-den:{nm}:ts={cfg['ts']}")
            lem = [S.lt(S.ZERO, Poly({(i,): 1})) for i in recs]
            cx.holds(f"{nm} >= 0", S.le(S.ZERO, q), assumptions=lem, key=f"nonneg:{nm}:ts={cfg['ts']}",
                     note="denominator positivity proved as separate lemmas")
        cx.holds(f"canary[{nm} <= 0]", S.le(val.a.reshape(-1)[0], S.ZERO), canary=True)
