"""Stubs (each is part of the claim): uninterpreted inner models, permutation stub, eigh stub."""
from __future__ import annotations

import numpy as np
import jax
import jax.numpy as jnp
from jax.extend import core as jcore
from jax.core import ShapedArray
from jax.interpreters import batching

from . import sym as S
from .sym import Sym
from . import interp as I

# ------------------------------------------------------------------ uninterpreted model primitive
uf_p = jcore.Primitive("uf_model")
uf_p.def_abstract_eval(lambda x, *, name, out_size: ShapedArray((out_size,), x.dtype))


def generic_model(name, x, out_size):
    """Concrete stand-in used ONLY when a witness is replayed: a fixed, seeded, nonlinear, position-dependent,
    channel-mixing map of the whole input vector (any two different inputs give different outputs)."""
    x = np.asarray(x, dtype=np.float64).reshape(-1)
    seed = sum(ord(c) * (i + 1) for i, c in enumerate(name)) % (2 ** 31)
    rng = np.random.RandomState(seed)
    A = rng.uniform(-1, 1, size=(out_size, x.size))
    b = rng.uniform(-1, 1, size=(out_size,))
    lin = A @ x + b
    return np.tanh(lin) + 0.37 * lin + 0.11 * (A ** 2 @ (x ** 2))


uf_p.def_impl(lambda x, *, name, out_size: jnp.asarray(generic_model(name, np.asarray(x), out_size), dtype=jnp.float32))


def _uf_rule(ins, params):
    (x,) = ins
    x = I.lift(x, "real")
    args = tuple(x.a.reshape(-1))
    name = params["name"]
    out = np.empty((params["out_size"],), dtype=object)
    for i in range(params["out_size"]):
        out[i] = S.uf(f"{name}_{i}", args)
    I.STATS["uf_applications"] += 1
    return [Sym(out, "real")]


I.CUSTOM_RULES["uf_model"] = _uf_rule


def uf_apply(name, vec, out_size):
    """Harness-side application of the same uninterpreted function to an object vector of Poly."""
    args = tuple(S.as_poly(q) for q in vec)
    out = np.empty((out_size,), dtype=object)
    for i in range(out_size):
        out[i] = S.uf(f"{name}_{i}", args)
    return out


def canonical_vector(blocks):
    """Flatten a dict (k,p)->array in sorted key order (the stub's canonical argument order)."""
    parts = [np.asarray(blocks[k]).reshape(-1) if not hasattr(blocks[k], "a") else blocks[k].a.reshape(-1) for k in sorted(blocks)]
    return np.concatenate(parts) if parts else np.zeros((0,), dtype=object)


def make_uf_model(name, out_sig, out_spatial=None, out_D=None, out_is_torus=None):
    """A MultiImageModule whose output is an uninterpreted function of its whole input (sorted-key order).
    out_sig: ((k,p), channels) list; spatial dims are taken from the input unless given."""
    import equinox as eqx
    import ginjax.geometric as geom
    import ginjax.ml  # noqa: F401  (import order: ml before models)
    import ginjax.models as models

    out_sig = tuple((tuple(kp), int(c)) for kp, c in out_sig)

    class UFModel(models.MultiImageModule):
        uname: str = eqx.field(static=True)

        def __call__(self, x, aux_data=None):
            D = x.D if out_D is None else out_D
            sd = tuple(x.get_spatial_dims()) if out_spatial is None else tuple(out_spatial)
            vec = jnp.concatenate([x[k].reshape(-1) for k in sorted(x.keys())])
            sizes = [c * int(np.prod(sd)) * D ** kp[0] for kp, c in out_sig]
            y = uf_p.bind(vec, name=self.uname, out_size=int(sum(sizes)))
            out = geom.MultiImage({}, D, x.is_torus if out_is_torus is None else out_is_torus)
            i = 0
            for (kp, c), sz in zip(out_sig, sizes):
                out.append(kp[0], kp[1], y[i:i + sz].reshape((c,) + sd + (D,) * kp[0]))
                i += sz
            return out, aux_data

    return UFModel(name)


def uf_model_apply(name, blocks, out_sig, spatial, D):
    """Harness-side evaluation of make_uf_model(name, out_sig) on a dict of object arrays."""
    out_sig = [(tuple(kp), int(c)) for kp, c in out_sig]
    sizes = [c * int(np.prod(spatial)) * D ** kp[0] for kp, c in out_sig]
    y = uf_apply(name, canonical_vector(blocks), int(sum(sizes)))
    out = {}
    i = 0
    for (kp, c), sz in zip(out_sig, sizes):
        out[kp] = y[i:i + sz].reshape((c,) + tuple(spatial) + (D,) * kp[0])
        i += sz
    return out


# ------------------------------------------------------------------ array-level uninterpreted function (plain CNN stand-in)
ufa_p = jcore.Primitive("uf_array")
ufa_p.def_abstract_eval(lambda x, *, name, out_shape: ShapedArray(tuple(out_shape), x.dtype))
ufa_p.def_impl(lambda x, *, name, out_shape: jnp.asarray(
    generic_model(name, np.asarray(x), int(np.prod(out_shape))).reshape(out_shape), dtype=jnp.float32))


def _ufa_rule(ins, params):
    (x,) = ins
    x = I.lift(x, "real")
    n = int(np.prod(params["out_shape"]))
    out = uf_apply(params["name"], x.a.reshape(-1), n).reshape(params["out_shape"])
    return [Sym(out, "real")]


I.CUSTOM_RULES["uf_array"] = _ufa_rule
