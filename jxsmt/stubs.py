"""Stubs (each is part of the claim): uninterpreted inner models, permutation stub, eigh stub."""
from __future__ import annotations

import numpy as np
import jax
import jax.numpy as jnp
from jax.extend import core as jcore
from jax.core import ShapedArray
from jax.interpreters import batching

from . import sym as S
from .sym import Sym
from . import interp as I

# ------------------------------------------------------------------ uninterpreted model primitive
uf_p = jcore.Primitive("uf_model")
uf_p.def_abstract_eval(lambda x, *, name, out_size: ShapedArray((out_size,), x.dtype))


def generic_model(name, x, out_size):
    """Concrete stand-in used ONLY when a witness is replayed: a fixed, seeded, nonlinear, position-dependent,
    channel-mixing map of the whole input vector (any two different inputs give different outputs)."""
    x = np.asarray(x, dtype=np.float64).reshape(-1)
    seed = sum(ord(c) * (i + 1) for i, c in enumerate(name)) % (2 ** 31)
    rng = np.random.RandomState(seed)
    A = rng.uniform(-1, 1, size=(out_size, x.size))
    b = rng.uniform(-1, 1, size=(out_size,))
    lin = A @ x + b
    return np.tanh(lin) + 0.37 * lin + 0.11 * (A ** 2 @ (x ** 2))


uf_p.def_impl(lambda x, *, name, out_size: jnp.asarray(generic_model(name, np.asarray(x), out_size), dtype=jnp.float32))


def _uf_rule(ins, params):
    (x,) = ins
    x = I.lift(x, "real")
    args = tuple(x.a.reshape(-1))
    name = params["name"]
    out = np.empty((params["out_size"],), dtype=object)
    for i in range(params["out_size"]):
        out[i] = S.uf(f"{name}_{i}", args)
    I.STATS["uf_applications"] += 1
    return [Sym(out, "real")]


I.CUSTOM_RULES["uf_model"] = _uf_rule


def uf_apply(name, vec, out_size):
    """Harness-side application of the same uninterpreted function to an object vector of Poly."""
    args = tuple(S.as_poly(q) for q in vec)
    out = np.empty((out_size,), dtype=object)
    for i in range(out_size):
        out[i] = S.uf(f"{name}_{i}", args)
    return out


def canonical_vector(blocks):
    """Flatten a dict (k,p)->array in sorted key order (the stub's canonical argument order)."""
    parts = [np.asarray(blocks[k]).reshape(-1) if not hasattr(blocks[k], "a") else blocks[k].a.reshape(-1) for k in sorted(blocks)]
    return np.concatenate(parts) if parts else np.zeros((0,), dtype=object)


def _meta_name(name, D, is_torus):
    it = tuple(bool(v) for v in is_torus) if isinstance(is_torus, (tuple, list)) else (bool(is_torus),) * D
    return f"{name}_D{D}_{''.join('T' if v else 'F' for v in it)}"


def make_uf_model(name, out_sig, out_spatial=None, out_D=None, out_is_torus=None):
    """A MultiImageModule whose output is an uninterpreted function of its whole input (sorted-key order).
    out_sig: ((k,p), channels) list; spatial dims are taken from the input unless given."""
    import equinox as eqx
    import ginjax.geometric as geom
    import ginjax.ml  # noqa: F401  (import order: ml before models)
    import ginjax.models as models

    out_sig = tuple((tuple(kp), int(c)) for kp, c in out_sig)

    class UFModel(models.MultiImageModule):
        uname: str = eqx.field(static=True)

        def __call__(self, x, aux_data=None):
            D = x.D if out_D is None else out_D
            sd = tuple(x.get_spatial_dims()) if out_spatial is None else tuple(out_spatial)
            vec = jnp.concatenate([x[k].reshape(-1) for k in sorted(x.keys())])
            sizes = [c * int(np.prod(sd)) * D ** kp[0] for kp, c in out_sig]
            # "every model" includes models that look at the image's metadata: the function symbol depends on (D, is_torus)
            y = uf_p.bind(vec, name=_meta_name(self.uname, x.D, x.is_torus), out_size=int(sum(sizes)))
            out = geom.MultiImage({}, D, x.is_torus if out_is_torus is None else out_is_torus)
            i = 0
            for (kp, c), sz in zip(out_sig, sizes):
                out.append(kp[0], kp[1], y[i:i + sz].reshape((c,) + sd + (D,) * kp[0]))
                i += sz
            return out, aux_data

    return UFModel(name)


def uf_model_apply(name, blocks, out_sig, spatial, D, is_torus=True):
    """Harness-side evaluation of make_uf_model(name, out_sig) on a dict of object arrays (of an image with flags is_torus)."""
    name = _meta_name(name, D, is_torus)
    out_sig = [(tuple(kp), int(c)) for kp, c in out_sig]
    sizes = [c * int(np.prod(spatial)) * D ** kp[0] for kp, c in out_sig]
    y = uf_apply(name, canonical_vector(blocks), int(sum(sizes)))
    out = {}
    i = 0
    for (kp, c), sz in zip(out_sig, sizes):
        out[kp] = y[i:i + sz].reshape((c,) + tuple(spatial) + (D,) * kp[0])
        i += sz
    return out


# ------------------------------------------------------------------ array-level uninterpreted function (plain CNN stand-in)
ufa_p = jcore.Primitive("uf_array")
ufa_p.def_abstract_eval(lambda x, *, name, out_shape: ShapedArray(tuple(out_shape), x.dtype))
ufa_p.def_impl(lambda x, *, name, out_shape: jnp.asarray(
    generic_model(name, np.asarray(x), int(np.prod(out_shape))).reshape(out_shape), dtype=jnp.float32))


def _ufa_rule(ins, params):
    (x,) = ins
    x = I.lift(x, "real")
    n = int(np.prod(params["out_shape"]))
    out = uf_apply(params["name"], x.a.reshape(-1), n).reshape(params["out_shape"])
    return [Sym(out, "real")]


I.CUSTOM_RULES["uf_array"] = _ufa_rule


# ------------------------------------------------------------------ eigh stub (DESIGN.md 2.3)
EIGH_SIGNS = None  # optional per-column sign pattern applied to the stub's eigenvectors (column-sign obligation)
EIGH_CONTRACT = None  # (g, base log) while executing the g-transformed run
EIGH_CONTRACT_START = [0]
EIGH_LOG = []  # one entry per eigh eqn executed symbolically: dict(cov=object array (..,D,D), vecs=..., vals=...)


def _eigh_rule(ins, params):
    """Symmetric eigendecomposition as uninterpreted functions of the matrix entries.  What is assumed about it is
    added per obligation by eigh_covariance_assumption / checked by the column-sign obligation; nothing else."""
    (c,) = ins
    c = I.lift(c, "real")
    a = c.a
    D = a.shape[-1]
    lead = a.shape[:-2]
    vecs = np.empty(lead + (D, D), dtype=object)
    vals = np.empty(lead + (D,), dtype=object)
    for ix in np.ndindex(*lead):
        args = tuple(a[ix].reshape(-1))
        for i in range(D):
            vals[ix + (i,)] = S.uf(f"eigval{D}_{i}", args)
            for j in range(D):
                vecs[ix + (i, j)] = S.uf(f"eigvec{D}_{i}{j}", args)
        if EIGH_CONTRACT is not None:
            # the stub's contract applied by rewriting: if this matrix is (as a polynomial identity) g C g^T for the matrix C of
            # the corresponding eigh call of the base run, return (eigvals(C), g . eigvecs(C)); otherwise nothing is granted
            g, blog = EIGH_CONTRACT
            n = len(EIGH_LOG) - EIGH_CONTRACT_START[0]
            if n < len(blog):
                b = blog[n]
                g_ = np.asarray(g)
                okc = True
                for i in range(D):
                    for j in range(D):
                        acc = S.ZERO
                        for p_ in range(D):
                            for q_ in range(D):
                                if g_[i, p_] and g_[j, q_]:
                                    acc = acc + b["cov"][p_, q_] * int(g_[i, p_] * g_[j, q_])
                        okc = okc and (a[ix][i, j].t == acc.t)
                if okc:
                    for i in range(D):
                        vals[ix + (i,)] = b["vals"][i]
                        for j in range(D):
                            acc = S.ZERO
                            for p_ in range(D):
                                if g_[i, p_]:
                                    acc = acc + b["vecs"][p_, j] * int(g_[i, p_])
                            vecs[ix + (i, j)] = acc
                    I.STATS["eigh_contract_applied"] += 1
                else:
                    I.STATS["eigh_contract_premise_failed"] += 1
        if EIGH_SIGNS is not None:
            for j in range(D):
                if EIGH_SIGNS[j] < 0:
                    for i in range(D):
                        vecs[ix + (i, j)] = -vecs[ix + (i, j)]
        EIGH_LOG.append({"cov": a[ix], "vecs": vecs[ix], "vals": vals[ix]})
    I.STATS["eigh_stub_applications"] += 1
    return [Sym(vecs, "real"), Sym(vals, "real")]


I.CUSTOM_RULES["eigh"] = _eigh_rule


def eigh_covariance_assumption(base, other, g):
    """Instance of the stub's contract for the matrices that actually occur:
         C' = g C g^T  (entrywise)   ==>   eigenvalues' = eigenvalues  and  eigenvectors' = g . eigenvectors
    asserted as an IMPLICATION: if the repo computes the covariance wrongly the premise is false and nothing is granted."""
    g = np.asarray(g)
    D = g.shape[0]
    C, Cp = base["cov"], other["cov"]
    gC = np.empty((D, D), dtype=object)
    for i in range(D):
        for j in range(D):
            acc = S.ZERO
            for a in range(D):
                for b in range(D):
                    if g[i, a] and g[j, b]:
                        acc = acc + C[a, b] * int(g[i, a] * g[j, b])
            gC[i, j] = acc
    prem = S.band(*[S.eq(Cp[i, j], gC[i, j]) for i in range(D) for j in range(D)])
    concl = [S.eq(other["vals"][i], base["vals"][i]) for i in range(D)]
    for i in range(D):
        for j in range(D):
            acc = S.ZERO
            for a in range(D):
                if g[i, a]:
                    acc = acc + base["vecs"][a, j] * int(g[i, a])
            concl.append(S.eq(other["vecs"][i, j], acc))
    return S.bor(S.bnot(prem), S.band(*concl)), prem
