"""SMT-LIB2 emission and solving for JXSMT obligations.

An obligation is  (assumptions) => (for all i: lhs_i == rhs_i)  [or a Boolean goal].
The script asserts the atom definitions, the assumptions and the NEGATED goal; `unsat` means the
property holds for every real assignment within the configuration, `sat` yields a witness.

Abstraction first: the defining axioms of sqrt/recip atoms are dropped in the first query (sound
for `unsat`); only when that query is `sat` is it re-asked with the axioms (DESIGN.md 2.1 step 4).
"""
from __future__ import annotations

import os
import subprocess
import tempfile
import time
from fractions import Fraction

import sys
import z3

if hasattr(sys, "set_int_max_str_digits"):
    sys.set_int_max_str_digits(0)

from . import sym as S
from .sym import Poly, BoolE, CTX

SOLVER_STATS = {"queries": 0, "solver_s": 0.0, "unsat": 0, "sat": 0, "unknown": 0,
                "abstract_unsat": 0, "refined": 0, "crosschecks": 0}


def _rat(c):
    c = Fraction(c)
    n, d = c.numerator, c.denominator
    s = f"{abs(n)}.0" if d == 1 else f"(/ {abs(n)}.0 {d}.0)"
    return s if n >= 0 else f"(- {s})"


def _aname(i):
    kind, payload = CTX.atoms[i]
    if kind == "var":
        return "v_" + payload
    return f"a{i}"


def poly_smt(p: Poly):
    if not p.t:
        return "0.0"
    terms = []
    for m, c in sorted(p.t.items()):  # canonical term order: equal polynomials must print identically
        if not m:
            terms.append(_rat(c))
        elif c == 1 and len(m) == 1:
            terms.append(_aname(m[0]))
        else:
            fs = ([] if c == 1 else [_rat(c)]) + [_aname(i) for i in m]
            terms.append("(* " + " ".join(fs) + ")" if len(fs) > 1 else fs[0])
    if len(terms) == 1:
        return terms[0]
    return "(+ " + " ".join(terms) + ")"


def bool_smt(b: BoolE):
    op = b.op
    if op == "true":
        return "true"
    if op == "false":
        return "false"
    if op == "lt0":
        return f"(< {poly_smt(b.args[0])} 0.0)"
    if op == "le0":
        return f"(<= {poly_smt(b.args[0])} 0.0)"
    if op == "eq0":
        return f"(= {poly_smt(b.args[0])} 0.0)"
    if op == "not":
        return f"(not {bool_smt(b.args[0])})"
    if op in ("and", "or"):
        return f"({op} " + " ".join(bool_smt(a) for a in b.args) + ")"
    if op == "bvar":
        return "b_" + b.args[0]
    raise ValueError(op)


def _atoms_of_bool(b, acc):
    if b.op in ("lt0", "le0", "eq0"):
        acc.update(b.args[0].atoms())
    elif b.op in ("and", "or", "not"):
        for a in b.args:
            _atoms_of_bool(a, acc)


def _bvars_of_bool(b, acc):
    if b.op == "bvar":
        acc.add(b.args[0])
    elif b.op in ("and", "or", "not"):
        for a in b.args:
            _bvars_of_bool(a, acc)


def closure(polys, bools):
    """All atoms / bvars reachable from the given terms (through atom arguments)."""
    atoms = set()
    bvars = set()
    work = set()
    for p in polys:
        work.update(p.atoms())
    for b in bools:
        _atoms_of_bool(b, work)
        _bvars_of_bool(b, bvars)
    while work:
        i = work.pop()
        if i in atoms:
            continue
        atoms.add(i)
        kind, payload = CTX.atoms[i]
        new = set()
        if kind in ("sqrt", "recip", "def"):
            new.update(payload.atoms())
        elif kind == "ite":
            c, a, b = payload
            _atoms_of_bool(c, new)
            _bvars_of_bool(c, bvars)
            new.update(a.atoms())
            new.update(b.atoms())
        elif kind == "uf":
            for a in payload[1]:
                new.update(a.atoms())
        elif kind == "maxsel":
            for t, v in payload:
                new.update(t.atoms())
                new.update(v.atoms())
        work.update(new - atoms)
    return atoms, bvars


class Obligation:
    def __init__(self, name, pairs=None, goal=None, assumptions=(), nonzero=(), meta=None):
        """pairs: list of (lhs Poly, rhs Poly) that must all be equal; or goal: BoolE that must hold.
        assumptions: BoolE list.  nonzero: polys assumed non-zero (denominators)."""
        self.name = name
        self.pairs = list(pairs or [])
        self.goal = goal
        self.assumptions = list(assumptions)
        self.meta = meta or {}

    def script(self, with_axioms=True, extra=(), bound=None, gap=None):
        polys = []
        bools = list(self.assumptions) + list(extra)
        for l, r in self.pairs:
            polys.append(l)
            polys.append(r)
        if self.goal is not None:
            bools.append(self.goal)
        atoms, bvars = closure(polys, bools)
        lines = []
        uses_uf = False
        nonlinear = False
        decl = []
        defs = []
        for i in sorted(atoms):
            kind, payload = CTX.atoms[i]
            nm = _aname(i)
            if kind == "uf":
                uses_uf = True
                continue
            decl.append(f"(declare-const {nm} Real)")
            if kind == "var" and with_axioms and payload in S.CONST_VALUES:
                defs.append(f"(assert (= {nm} {_rat(S.CONST_VALUES[payload])}))")
            if kind == "sqrt":
                if with_axioms:
                    defs.append(f"(assert (>= {nm} 0.0))")
                    defs.append(f"(assert (= (* {nm} {nm}) {poly_smt(payload)}))")
                    nonlinear = True
            elif kind == "recip":
                if with_axioms:
                    defs.append(f"(assert (= (* {nm} {poly_smt(payload)}) 1.0))")
                    nonlinear = True
            elif kind == "def":
                if with_axioms:
                    defs.append(f"(assert (= {nm} {poly_smt(payload)}))")
            elif kind == "maxsel":
                if with_axioms:
                    for i_, (t_i, v_i) in enumerate(payload):
                        conds = [f"(< {poly_smt(t_j)} {poly_smt(t_i)})" for j_, (t_j, _) in enumerate(payload) if j_ != i_]
                        ant = "(and " + " ".join(conds) + ")" if len(conds) > 1 else (conds[0] if conds else "true")
                        defs.append(f"(assert (=> {ant} (= {nm} {poly_smt(v_i)})))")
            elif kind == "ite":
                c, a, b = payload
                defs.append(f"(assert (= {nm} (ite {bool_smt(c)} {poly_smt(a)} {poly_smt(b)})))")
        ufdecl = {}
        ufdefs = []
        for i in sorted(atoms):
            kind, payload = CTX.atoms[i]
            if kind != "uf":
                continue
            fname, args = payload
            ufdecl[fname] = len(args)
            decl.append(f"(declare-const a{i} Real)")
            ufdefs.append(f"(assert (= a{i} (f_{fname} " + " ".join(poly_smt(a) for a in args) + ")))")
        for fname, ar in ufdecl.items():
            lines.append(f"(declare-fun f_{fname} (" + " ".join(["Real"] * ar) + ") Real)")
        for bv in sorted(bvars):
            lines.append(f"(declare-const b_{bv} Bool)")
        lines += decl + defs + ufdefs
        for a in bools[: len(self.assumptions) + len(extra)]:
            lines.append(f"(assert {bool_smt(a)})")
        neg = []
        for l, r in self.pairs:
            d = l - r
            if gap is not None:
                ds = poly_smt(d)
                neg.append(f"(or (>= {ds} {_rat(gap)}) (<= {ds} (- {_rat(gap)})))")
            else:
                neg.append(f"(not (= {poly_smt(l)} {poly_smt(r)}))")
        if self.goal is not None:
            neg.append(f"(not {bool_smt(self.goal)})")
        if not neg:
            neg = ["false"]
        lines.append("(assert (or " + " ".join(neg) + "))" if len(neg) > 1 else f"(assert {neg[0]})")
        if bound is not None:
            for i in sorted(atoms):
                if CTX.atoms[i][0] == "var":
                    nm = _aname(i)
                    lines.append(f"(assert (and (<= {nm} {_rat(bound)}) (>= {nm} (- {_rat(bound)}))))")
        return "\n".join(lines), sorted(atoms), sorted(bvars)


def _z3_check(script, timeout_s):
    s = z3.Solver()
    s.set("timeout", int(timeout_s * 1000))
    s.from_string(script)
    t0 = time.time()
    r = s.check()
    dt = time.time() - t0
    SOLVER_STATS["queries"] += 1
    SOLVER_STATS["solver_s"] += dt
    return str(r), s, dt


def _model_values(s, atoms, bvars):
    m = s.model()
    vals = {}
    for i in atoms:
        kind, payload = CTX.atoms[i]
        if kind == "uf":
            nm = f"a{i}"
        else:
            nm = _aname(i)
        v = m.eval(z3.Real(nm), model_completion=True)
        vals[i] = _z3num(v)
    bv = {b: z3.is_true(m.eval(z3.Bool("b_" + b), model_completion=True)) for b in bvars}
    return vals, bv, m


def _z3num(v):
    if z3.is_rational_value(v):
        return Fraction(v.numerator_as_long(), v.denominator_as_long())
    if z3.is_algebraic_value(v):
        a = v.approx(20)
        return Fraction(a.numerator_as_long(), a.denominator_as_long())
    try:
        return Fraction(str(v))
    except Exception:
        return Fraction(0)


class Result:
    def __init__(self, status, values=None, bvalues=None, solver_s=0.0, detail="", model=None, refined=False):
        self.status = status  # 'unsat' | 'sat' | 'unknown'
        self.values = values or {}
        self.bvalues = bvalues or {}
        self.solver_s = solver_s
        self.detail = detail
        self.model = model
        self.refined = refined

    def var_values(self):
        """name -> Fraction for the input variables."""
        out = {}
        for i, v in self.values.items():
            kind, payload = CTX.atoms[i]
            if kind == "var":
                out[payload] = v
        return out


ABSTRACT_KINDS = ("sqrt", "recip", "def", "maxsel")


def _pinned(atoms, seed=0):
    """Generic seeded rational values for the input variables (used to pin an abstract query to a point)."""
    import random
    rng = random.Random(seed)
    out = []
    for i in atoms:
        if CTX.atoms[i][0] == "var" and CTX.atoms[i][1] in S.CONST_VALUES:
            out.append((i, S.CONST_VALUES[CTX.atoms[i][1]]))
        elif CTX.atoms[i][0] == "var":
            v = Fraction(rng.randint(-16, 16), 8)
            if v == 0:
                v = Fraction(3, 8)
            out.append((i, v))
    return out


def solve(ob: Obligation, timeout_s=60.0, conditioned=True, confirm=None, canary=False):
    """Decide an obligation.  Returns Result(status in unsat/sat/unknown).

    confirm(values, bvalues) -> bool : optional replay on the real code; used to accept a witness obtained from
    the ABSTRACT query (axioms of sqrt/recip/def atoms dropped) without paying for the refined query."""
    t_total = 0.0
    script, atoms, bvars = ob.script(with_axioms=False)
    has_defined = any(CTX.atoms[i][0] in ABSTRACT_KINDS or (CTX.atoms[i][0] == "var" and CTX.atoms[i][1] in S.CONST_VALUES) for i in atoms)
    if canary:
        # cheapest refutation first: the query pinned to a generic point of the input space (exact when there are no defined
        # atoms, abstract otherwise - see below why the abstract query is the right one for a canary)
        pins = _pinned(atoms, seed=len(atoms))
        extra = "\n".join(f"(assert (= {_aname(i)} {_rat(v)}))" for i, v in pins)
        r0, s0, dt0 = _z3_check(script + "\n" + extra, min(timeout_s, 20.0))
        t_total += dt0
        if r0 == "sat":
            SOLVER_STATS["sat"] += 1
            vals, bv, m = _model_values(s0, atoms, bvars)
            return Result("sat", vals, bv, t_total, "query satisfiable at a pinned point (canary)", m)
    r, s, dt = _z3_check(script, timeout_s)
    t_total += dt
    if r == "unsat":
        SOLVER_STATS["unsat"] += 1
        if has_defined:
            SOLVER_STATS["abstract_unsat"] += 1
        return Result("unsat", solver_s=t_total, detail="abstract" if has_defined else "exact")
    if canary and has_defined:
        # A canary guards against vacuity of the query that DISCHARGES the real obligations, which is the abstract one:
        # it is refuted as soon as the abstract query (same assumptions, atom axioms dropped) has a model.
        if r == "sat":
            SOLVER_STATS["sat"] += 1
            vals, bv, m = _model_values(s, atoms, bvars)
            return Result("sat", vals, bv, t_total, "abstract query satisfiable (canary)", m)
        pins = _pinned(atoms, seed=len(atoms))
        extra = "\n".join(f"(assert (= {_aname(i)} {_rat(v)}))" for i, v in pins)
        r0, s0, dt0 = _z3_check(script + "\n" + extra, min(timeout_s, 20.0))
        t_total += dt0
        if r0 == "sat":
            SOLVER_STATS["sat"] += 1
            vals, bv, m = _model_values(s0, atoms, bvars)
            return Result("sat", vals, bv, t_total, "abstract query satisfiable at a pinned point (canary)", m)
    if has_defined:
        if confirm is not None and r in ("sat", "unknown"):
            # candidate witness: the abstract query pinned to a generic point of the input space
            pins = _pinned(atoms, seed=len(atoms))
            extra = "\n".join(f"(assert (= {_aname(i)} {_rat(v)}))" for i, v in pins)
            r0, s0, dt0 = _z3_check(script + "\n" + extra, min(timeout_s, 20.0))
            t_total += dt0
            cands = []
            if r0 == "sat":
                cands.append(_model_values(s0, atoms, bvars))
            if r == "sat":
                cands.append(_model_values(s, atoms, bvars))
            for vals, bv, m in cands:
                res = Result("sat", vals, bv, t_total, "abstract-model witness confirmed by replay on the real code", m)
                fvals = {k: float(v) for k, v in res.var_values().items()}
                fbv = {k: bool(v) for k, v in bv.items()}
                # a model of the ABSTRACT query need not satisfy the obligation's assumptions on the concrete input (their
                # atoms were unconstrained): such a candidate says nothing, whatever the real code does on it
                try:
                    if not all(S.eval_bool(a, fvals, fbv) for a in ob.assumptions):
                        continue
                except Exception:  # noqa: BLE001 - e.g. uninterpreted functions: cannot be evaluated, keep the candidate
                    pass
                try:
                    ok = confirm(fvals, fbv)
                except Exception:  # noqa: BLE001
                    ok = False
                if ok:
                    SOLVER_STATS["sat"] += 1
                    return res
        # refine: re-ask with the defining axioms of sqrt / recip / def atoms
        SOLVER_STATS["refined"] += 1
        script, atoms, bvars = ob.script(with_axioms=True)
        r, s, dt = _z3_check(script, timeout_s)
        t_total += dt
        if r == "unsat":
            SOLVER_STATS["unsat"] += 1
            return Result("unsat", solver_s=t_total, detail="refined", refined=True)
    if r != "sat":
        SOLVER_STATS["unknown"] += 1
        return Result("unknown", solver_s=t_total, detail=f"z3 answered {r}")
    SOLVER_STATS["sat"] += 1
    vals, bv, m = _model_values(s, atoms, bvars)
    res = Result("sat", vals, bv, t_total, "raw model", m, refined=has_defined)
    if conditioned and ob.pairs and not canary:
        # well-conditioned witness: bounded inputs, gap >= 1/8, so that it survives float32
        script2, atoms2, bvars2 = ob.script(with_axioms=True, bound=4, gap=Fraction(1, 8))
        r2, s2, dt2 = _z3_check(script2, min(timeout_s, 20.0))
        t_total += dt2
        if r2 == "sat":
            vals2, bv2, m2 = _model_values(s2, atoms2, bvars2)
            res = Result("sat", vals2, bv2, t_total, "conditioned model", m2, refined=has_defined)
    res.solver_s = t_total
    return res


# ------------------------------------------------------------------ cross-checking with other solvers
def crosscheck(ob: Obligation, expect, timeout_s=60, with_axioms=True):
    """Run the (axiomatised) script through /usr/bin/z3 4.8.12 and the cvc5 binary.  Returns dict
    solver->answer; a definite answer different from `expect` or an `(error` line is a disagreement."""
    script, atoms, bvars = ob.script(with_axioms=with_axioms)
    uses_uf = "declare-fun" in script
    nonlin = any(CTX.atoms[i][0] in ABSTRACT_KINDS for i in atoms) or any(
        len(m) > 1 for l, r in ob.pairs for p in (l, r) for m in p.t)
    logic = "QF_" + ("UF" if uses_uf else "") + ("NRA" if nonlin else "LRA")
    text = f"(set-logic {logic})\n" + script + "\n(check-sat)\n"
    out = {}
    with tempfile.NamedTemporaryFile("w", suffix=".smt2", delete=False, dir=os.environ.get("VERIF_SCRATCH", None)) as f:
        f.write(text)
        path = f.name
    try:
        for nm, cmd in (("z3-4.8.12", ["/usr/bin/z3", f"-T:{int(timeout_s)}", path]),
                        ("cvc5-1.0.3", ["cvc5", f"--tlimit={int(timeout_s * 1000)}", path])):
            try:
                p = subprocess.run(cmd, capture_output=True, text=True, timeout=timeout_s + 10)
                o = (p.stdout + p.stderr).strip()
                if "(error" in o or "Error" in o:
                    out[nm] = "error: " + o[:200]
                else:
                    out[nm] = o.split()[0] if o else "unknown"
            except subprocess.TimeoutExpired:
                out[nm] = "timeout"
            SOLVER_STATS["crosschecks"] += 1
    finally:
        os.unlink(path)
    return out, logic
