"""Check driver: cells -> obligations -> z3 -> replay -> evidence / exit codes (DESIGN.md section 5).

Exit codes: 0 = everything explored held (known findings are printed, not counted);
            1 = a violation reproduced on the real code and not listed in known_findings.json
                (prints `VIOLATION property=<id> replay=<path>`);
            3 = inconclusive / harness error (unknown, timeout, unsupported primitive, canary not
                refuted, witness that does not reproduce).  Never reported as success.
"""
from __future__ import annotations

import argparse
import fnmatch
import hashlib
import importlib
import json
import os
import sys
import time
import traceback
from concurrent.futures import ProcessPoolExecutor, as_completed
import multiprocessing as mp
from fractions import Fraction

import numpy as np

ROOT = os.path.dirname(os.path.dirname(os.path.abspath(__file__)))
REPO = os.environ.get("VERIF_REPO", "/repo")


def _jsonable(x):
    if isinstance(x, dict):
        return {str(k): _jsonable(v) for k, v in x.items()}
    if isinstance(x, (list, tuple)):
        return [_jsonable(v) for v in x]
    if isinstance(x, np.ndarray):
        return _jsonable(x.tolist())
    if isinstance(x, (np.integer,)):
        return int(x)
    if isinstance(x, (np.floating,)):
        return float(x)
    if isinstance(x, (np.bool_,)):
        return bool(x)
    if isinstance(x, Fraction):
        return float(x)
    if isinstance(x, (str, int, float, bool)) or x is None:
        return x
    return repr(x)


class CellCtx:
    """Handed to a property module's run_cell(cfg, cx)."""

    def __init__(self, prop, cfg, timeout_s, replay=None, tier="quick"):
        from . import smt
        self.smt = smt
        self.prop = prop
        self.cfg = cfg
        self.tier = tier
        self.timeout_s = timeout_s
        self.replay_req = replay  # (ob_name, values, bvalues) when replaying
        self.replay_outcome = None
        self.records = []  # per obligation dicts
        self.samples = []
        self.nontrivial_hashes = set()
        self.validated = 0
        self.notes = []

    # ---- helpers
    @staticmethod
    def conc(symarr, vals, dtype=np.float32):
        """Concrete float array for a Sym array of input variables under a witness."""
        from .sym import CTX
        a = symarr.a if hasattr(symarr, "a") else symarr
        out = np.empty(a.shape, dtype=np.float64)
        of = out.reshape(-1)

        def val(i):
            kind, payload = CTX.atoms[i]
            if kind == "var":
                return float(vals.get(payload, 0.0))
            raise KeyError(kind)
        for j, p in enumerate(a.reshape(-1)):
            of[j] = float(p.eval(val))
        return out.astype(dtype)

    @staticmethod
    def expected(arr, vals, bvals=None):
        """Float value of a harness-side reference (array of Poly) under a witness."""
        from .sym import eval_array
        return eval_array(arr, vals, bvals)

    @staticmethod
    def deviates(lhs, rhs, rtol=1e-3):
        lhs = np.asarray(lhs, dtype=np.float64)
        rhs = np.asarray(rhs, dtype=np.float64)
        if lhs.shape != rhs.shape:
            return True, f"shape {lhs.shape} vs {rhs.shape}"
        if lhs.size == 0:
            return False, "empty"
        scale = max(1.0, float(np.max(np.abs(lhs))), float(np.max(np.abs(rhs))))
        dev = float(np.max(np.abs(lhs - rhs)))
        return dev > rtol * scale, f"max|lhs-rhs|={dev:.6g} scale={scale:.6g}"

    def _record(self, rec):
        rec.setdefault("cfg", self.cfg)
        self.records.append(rec)

    # ---- obligations
    def equal(self, name, lhs, rhs, replay=None, key=None, assumptions=(), canary=False, note=None,
              expect_shapes=True):
        """Obligation: for all values, lhs == rhs entrywise (arrays of Poly)."""
        la = lhs.a if hasattr(lhs, "a") else np.asarray(lhs, dtype=object)
        ra = rhs.a if hasattr(rhs, "a") else np.asarray(rhs, dtype=object)
        if la.shape != ra.shape:
            if canary:
                self._record({"name": name, "canary": True, "status": "sat", "reproduced": True,
                              "detail": f"shape mismatch {la.shape} vs {ra.shape}"})
                return "sat"
            return self.structural(name, False, f"output shape {la.shape} differs from specified {ra.shape}",
                                   replay=replay, key=key)
        pairs = list(zip(la.reshape(-1), ra.reshape(-1)))
        ob = self.smt.Obligation(name, pairs=pairs, assumptions=list(assumptions))
        return self._decide(ob, replay, key, canary, note)

    def holds(self, name, goal, replay=None, key=None, assumptions=(), canary=False, note=None):
        ob = self.smt.Obligation(name, goal=goal, assumptions=list(assumptions))
        return self._decide(ob, replay, key, canary, note)

    def _decide(self, ob, replay, key, canary, note):
        smt = self.smt
        name = ob.name
        if self.replay_req is not None:
            if self.replay_req[0] != name:
                return "skipped"
            vals, bvals = self.replay_req[1], self.replay_req[2]
            ok, detail = replay(vals, bvals) if replay is not None else (False, "no replay function")
            self.replay_outcome = (ok, detail)
            return "replayed"
        t0 = time.time()
        confirm = None
        if replay is not None:
            def confirm(vals, bvals):
                ok, _ = replay(vals, bvals)
                return bool(ok)
        res = smt.solve(ob, timeout_s=self.timeout_s, confirm=confirm, canary=canary)
        rec = {"name": name, "canary": canary, "status": res.status, "solver_s": round(res.solver_s, 4),
               "n_pairs": len(ob.pairs), "detail": res.detail, "key": key or name}
        if note:
            rec["note"] = note
        # non-triviality: the negated goal mentions at least one atom
        nvars = len({a for l, r in ob.pairs for a in (l.atoms() | r.atoms())})
        if ob.goal is not None:
            acc = set()
            smt._atoms_of_bool(ob.goal, acc)
            nvars += len(acc)
        rec["n_atoms"] = nvars
        if nvars > 0 and not canary:
            h = hashlib.sha1()
            for l, r in ob.pairs[:64]:
                h.update(repr((l.key(), r.key())).encode())
            if ob.goal is not None:
                h.update(repr(ob.goal.key()).encode())
            self.nontrivial_hashes.add(h.hexdigest())
        if len(self.samples) < 1 and not canary and nvars > 0:
            script, _, _ = ob.script(with_axioms=True)
            self.samples.append({"obligation": name, "cfg": _jsonable(self.cfg), "result": res.status,
                                 "smt2_head": script[:1200]})
        if res.status == "unsat" and self.tier == "thorough" and not canary:
            # seeded sample of the discharged scripts is re-decided by /usr/bin/z3 4.8.12 and the cvc5 1.0.3 binary
            hh = int(hashlib.sha1((name + json.dumps(_jsonable(self.cfg), sort_keys=True)).encode()).hexdigest(), 16)
            if hh % 25 == int(os.environ.get("VERIF_SEED", "0")) % 25:
                try:
                    ans, logic = smt.crosscheck(ob, "unsat", timeout_s=30, with_axioms=(res.detail != "abstract"))
                except Exception as e:  # noqa: BLE001
                    ans, logic = {"crosscheck": f"error: {e!r}"}, "?"
                rec["crosscheck"] = {"logic": logic, **ans}
                if any(v == "sat" or str(v).startswith("error") for v in ans.values()):
                    rec["status"] = "unknown"
                    rec["detail"] = f"solver disagreement: z3-5.1 unsat vs {ans}"
                    res.status = "unknown"
        if res.status == "unknown" and replay is not None and not canary and ob.pairs:
            # The solver could not decide (typically on a changed tree whose expressions are harder).  Look for a counterexample
            # numerically: evaluate both sides at a few seeded points of the input space; where they differ (and the assumptions
            # hold) the point is replayed on the real code like a solver witness.  Only a reproduced deviation is reported.
            import random as _random
            from . import sym as _S
            try:
                _, all_atoms, _ = ob.script(with_axioms=True)   # every atom, including those nested inside sqrt / recip / def / ite
            except Exception:  # noqa: BLE001
                all_atoms = []
            names = sorted({_S.CTX.atoms[a][1] for a in all_atoms if _S.CTX.atoms[a][0] == "var"})
            for trial in range(4):
                rng = _random.Random(1000 * trial + len(names))
                cand = {n: (float(_S.CONST_VALUES[n]) if n in _S.CONST_VALUES else rng.randint(-16, 16) / 8.0 * (10.0 ** -trial)) for n in names}
                try:
                    if not all(_S.eval_bool(a, cand, {}) for a in ob.assumptions):
                        continue
                    lv = _S.eval_array(np.array([l for l, _ in ob.pairs], dtype=object), cand)
                    rv = _S.eval_array(np.array([r for _, r in ob.pairs], dtype=object), cand)
                except Exception:  # noqa: BLE001 - uninterpreted functions etc.: cannot be evaluated
                    break
                if not self.deviates(lv, rv)[0]:
                    continue
                try:
                    ok, detail = replay(cand, {})
                except Exception:  # noqa: BLE001
                    ok, detail = False, ""
                if ok:
                    rec.update(status="sat", detail="solver unknown; counterexample found numerically and replayed on the real code",
                               witness=cand, bwitness={}, reproduced=True, replay_detail=detail)
                    self._record(rec)
                    return "sat"
        if res.status == "sat":
            vals = {k: float(v) for k, v in res.var_values().items()}
            bvals = {k: bool(v) for k, v in res.bvalues.items()}
            rec["witness"] = vals
            rec["bwitness"] = bvals
            if replay is not None and not (canary and "canary" in res.detail):
                try:
                    ok, detail = replay(vals, bvals)
                except Exception as e:  # noqa: BLE001 - real code may raise on the witness
                    from . import interp as _I
                    where = _I.real_code_frame(e)
                    msg = "".join(traceback.format_exception_only(type(e), e)).strip()
                    if where is not None:
                        # the un-traced real code raised on the concrete witness: that is a reproduced failure of the obligation
                        ok, detail = True, f"the real code raises on the witness: {msg[:200]} at {where}"
                    else:
                        ok, detail = False, "replay raised " + msg
                    rec["replay_exception"] = traceback.format_exc()[-2000:]
                rec["reproduced"] = bool(ok)
                rec["replay_detail"] = detail
            else:
                rec["reproduced"] = None
        self._record(rec)
        return res.status

    def structural(self, name, ok, detail="", replay=None, key=None, canary=False):
        """A discrete fact read off the real objects (keys, shapes, raised exceptions, metadata).
        No solver is involved; evidence counts these separately."""
        if self.replay_req is not None:
            if self.replay_req[0] != name:
                return "skipped"
            okr, det = replay({}, {}) if replay is not None else (not ok, detail)
            self.replay_outcome = (okr, det)
            return "replayed"
        rec = {"name": name, "canary": canary, "status": "unsat" if ok else "sat", "structural": True,
               "detail": detail, "key": key or name, "n_pairs": 0, "n_atoms": 0, "solver_s": 0.0}
        if not ok:
            if replay is not None:
                try:
                    okr, det = replay({}, {})
                except Exception as e:  # noqa: BLE001
                    okr, det = False, f"replay raised {e!r}"
                rec["reproduced"] = bool(okr)
                rec["replay_detail"] = det
            else:
                rec["reproduced"] = True  # the fact was observed on the real objects directly
            rec["witness"] = {}
            rec["bwitness"] = {}
        self._record(rec)
        return rec["status"]

    def external(self, name, status, detail="", reproduced=None, key=None, canary=False, witness=None, solver_s=0.0):
        """An obligation decided by another solver-based engine (CrossHair): status unsat (confirmed over all paths),
        sat (counterexample; `reproduced` says whether it replayed on the un-instrumented code) or unknown."""
        if self.replay_req is not None:
            if self.replay_req[0] == name:
                self.replay_outcome = (bool(reproduced), detail)
            return "replayed"
        rec = {"name": name, "canary": canary, "status": status, "detail": detail, "key": key or name, "n_pairs": 1, "n_atoms": 1,
               "solver_s": round(solver_s, 2), "engine": "crosshair"}
        if status == "sat":
            rec["reproduced"] = reproduced
            rec["replay_detail"] = detail
            rec["witness"] = witness or {}
            rec["bwitness"] = {}
        if not canary and status != "unknown":
            self.nontrivial_hashes.add(hashlib.sha1(name.encode()).hexdigest())
        if len(self.samples) < 1 and not canary:
            self.samples.append({"obligation": name, "engine": "crosshair", "result": status, "detail": detail[:300]})
        self._record(rec)
        return status

    def canary(self, name, lhs, rhs, replay=None, assumptions=()):
        la = lhs.a if hasattr(lhs, "a") else np.asarray(lhs, dtype=object)
        ra = rhs.a if hasattr(rhs, "a") else np.asarray(rhs, dtype=object)
        if la.shape == ra.shape and la.size and all(l.t == r.t for l, r in zip(la.reshape(-1), ra.reshape(-1))):
            # the deliberately wrong oracle happens to coincide with the result (e.g. an identically zero output): use an oracle
            # that cannot coincide, so the twin still tests reachability / consistency of the assumptions
            rhs = ra + 1
            replay = None
            name = name + " [fallback: oracle + 1]"
        return self.equal(name, lhs, rhs, replay=replay, canary=True, assumptions=assumptions)

    def validated_against_impl(self, n=1):
        self.validated += n

    def note(self, s):
        self.notes.append(s)


def _worker_init(repo):
    os.environ.setdefault("JAX_PLATFORMS", "cpu")
    os.environ.setdefault("XLA_FLAGS", "--xla_cpu_multi_thread_eigen=false intra_op_parallelism_threads=1")
    os.environ.setdefault("OMP_NUM_THREADS", "1")
    os.environ.setdefault("OPENBLAS_NUM_THREADS", "1")
    sys.path.insert(0, ROOT)


def _run_cell(prop, cfg, timeout_s, tier, replay=None):
    """Executed in a worker process."""
    _worker_init(REPO)
    from . import sym, interp, smt
    sym.CTX.reset()
    interp.STATS.clear()
    for k in smt.SOLVER_STATS:
        smt.SOLVER_STATS[k] = 0 if isinstance(smt.SOLVER_STATS[k], int) else 0.0
    mod = importlib.import_module(f"props.{prop}")
    cx = CellCtx(prop, cfg, timeout_s, replay=replay, tier=tier)
    t0 = time.time()
    err = None
    import contextlib, io, signal
    sink = io.StringIO()
    # wall-clock budget per cell (a changed tree can make the symbolic execution of one cell blow up): inconclusive, never a pass
    budget = int(os.environ.get("VERIF_CELL_TIMEOUT", "900" if tier == "quick" else "3600"))

    class CellTimeout(BaseException):  # not an Exception: must not be swallowed by the cells' own handlers
        pass

    def _on_alarm(signum, frame):
        raise CellTimeout(f"cell exceeded its wall-clock budget of {budget}s")
    try:
        signal.signal(signal.SIGALRM, _on_alarm)
        signal.alarm(budget)
    except Exception:  # noqa: BLE001 - not in a main thread
        pass
    try:
        with contextlib.redirect_stdout(sink):
            try:
                from props.common import warmup_other_dimension
                warmup_other_dimension(cfg)
            except CellTimeout:
                raise
            except Exception:  # noqa: BLE001
                pass
            mod.run_cell(cfg, cx)
        if replay is not None and str(replay[0]).startswith("raises:") and cx.replay_outcome is None:
            cx.replay_outcome = (False, "the real code did not raise")
    except CellTimeout as e:
        err = {"kind": "timeout", "msg": str(e), "tb": ""}
    except interp.Unsupported as e:
        err = {"kind": "unsupported", "msg": str(e), "tb": traceback.format_exc()[-3000:]}
    except Exception as e:  # noqa: BLE001
        # The real code raised on an in-domain configuration: a violation when it does so on concrete
        # data outside any trace (RealCodeRaised = re-confirmed eagerly; otherwise raised eagerly already).
        where = None
        if isinstance(e, interp.RealCodeRaised):
            where, etype, emsg = e.where, e.exc_type, str(e)
        elif not getattr(e, "_seen_while_tracing", False) and interp.real_code_frame(e) is not None:
            where, etype, emsg = interp.real_code_frame(e), type(e).__name__, f"{type(e).__name__}: {e}"
        if where is not None:
            name = f"raises:{etype}"
            ckey = ":".join(f"{a}={cfg[a]}" for a in sorted(cfg)) if isinstance(cfg, dict) else str(cfg)
            cx.records.append({"name": name, "structural": True, "status": "sat", "reproduced": True, "cfg": cfg,
                               "key": f"{name}:{where.split(' in ')[-1]}:{ckey}",
                               "detail": f"the real code raised on an in-domain configuration, also when called "
                                         f"eagerly on concrete data: {emsg[:300]} at {where}",
                               "replay_detail": f"real code raises {emsg[:300]} at {where}"})
            if replay is not None and replay[0] == name:
                cx.replay_outcome = (True, f"real code raises {emsg[:200]} at {where}")
        else:
            err = {"kind": "exception", "msg": repr(e), "tb": traceback.format_exc()[-3000:]}
    finally:
        try:
            signal.alarm(0)
        except Exception:  # noqa: BLE001
            pass
    return {
        "cfg": cfg, "records": cx.records, "samples": cx.samples, "error": err,
        "nontrivial": sorted(cx.nontrivial_hashes), "validated": cx.validated, "notes": cx.notes,
        "interp": dict(interp.STATS), "solver": dict(smt.SOLVER_STATS), "wall_s": time.time() - t0,
        "replay_outcome": cx.replay_outcome,
    }


def load_known_findings():
    p = os.path.join(ROOT, "known_findings.json")
    if not os.path.exists(p):
        return []
    with open(p) as f:
        return json.load(f).get("findings", [])


def _match_known(prop, key, findings):
    for f in findings:
        if f.get("property") != prop or f.get("status") != "known":
            continue
        for pat in f.get("keys", []):
            if fnmatch.fnmatchcase(key, pat):
                return f
    return None


def main(argv=None):
    ap = argparse.ArgumentParser(prog="vcheck")
    ap.add_argument("prop")
    ap.add_argument("--tier", default=os.environ.get("VERIF_TIER", "quick"), choices=["quick", "thorough"])
    ap.add_argument("--replay", default=None)
    ap.add_argument("--jobs", type=int, default=int(os.environ.get("VERIF_JOBS", "0")) or min(16, os.cpu_count() or 4))
    ap.add_argument("--only", default=None, help="substring filter on cell cfg json (debugging)")
    ap.add_argument("--no-evidence", action="store_true")
    args = ap.parse_args(argv)
    prop = args.prop
    seed = int(os.environ.get("VERIF_SEED", "0"))
    _worker_init(REPO)
    mod = importlib.import_module(f"props.{prop}")

    if args.replay:
        with open(args.replay) as f:
            rp = json.load(f)
        out = _run_cell(prop, rp["cfg"], 60, rp.get("tier", "quick"),
                        replay=(rp["obligation"], rp.get("witness", {}), rp.get("bwitness", {})))
        ro = out.get("replay_outcome")
        if out["error"]:
            print("replay harness error:", out["error"]["msg"])
            print(out["error"]["tb"])
            return 3
        if ro is None:
            print("replay: obligation not reached")
            return 3
        print(f"replay {prop} {rp['obligation']}: reproduced={ro[0]} {ro[1]}")
        if ro[0]:
            print(f"VIOLATION property={prop} replay={args.replay}")
            return 1
        return 0

    t0 = time.time()
    timeout_s = float(os.environ.get("VERIF_QUERY_TIMEOUT", "60" if args.tier == "quick" else "300"))
    cells = mod.cells(args.tier, seed)
    if args.only:
        cells = [c for c in cells if args.only in json.dumps(_jsonable(c))]
    results = []
    jobs = max(1, min(args.jobs, len(cells)))
    if jobs == 1:
        for c in cells:
            results.append(_run_cell(prop, c, timeout_s, args.tier))
    else:
        ctx = mp.get_context("spawn")
        # wall-clock budget for the whole check (a changed tree can make MANY cells slow): what is not finished by then is
        # inconclusive.  quick: 40 min, thorough: 5 h (VERIF_CHECK_TIMEOUT seconds to override)
        deadline = t0 + float(os.environ.get("VERIF_CHECK_TIMEOUT", "2400" if args.tier == "quick" else "18000"))
        ex = ProcessPoolExecutor(max_workers=jobs, mp_context=ctx)
        futs = {ex.submit(_run_cell, prop, c, timeout_s, args.tier): c for c in cells}
        pending = set(futs)
        try:
            from concurrent.futures import wait, FIRST_COMPLETED
            while pending:
                remaining = deadline - time.time()
                if remaining <= 0:
                    break
                done, pending = wait(pending, timeout=min(remaining, 30.0), return_when=FIRST_COMPLETED)
                for fu in done:
                    try:
                        results.append(fu.result())
                    except Exception as e:  # noqa: BLE001
                        results.append({"cfg": futs[fu], "records": [], "samples": [], "nontrivial": [], "validated": 0,
                                        "notes": [], "interp": {}, "solver": {}, "wall_s": 0.0, "replay_outcome": None,
                                        "error": {"kind": "worker", "msg": repr(e), "tb": traceback.format_exc()}})
        finally:
            for fu in pending:
                fu.cancel()
                results.append({"cfg": futs[fu], "records": [], "samples": [], "nontrivial": [], "validated": 0, "notes": [],
                                "interp": {}, "solver": {}, "wall_s": 0.0, "replay_outcome": None,
                                "error": {"kind": "timeout", "msg": "not finished within the wall-clock budget of the whole check", "tb": ""}})
            procs = list(getattr(ex, "_processes", {}).values())
            ex.shutdown(wait=not pending, cancel_futures=True)
            if pending:
                for pr in procs:
                    try:
                        pr.terminate()
                    except Exception:  # noqa: BLE001
                        pass
    return finish(prop, mod, args, seed, cells, results, t0)


def finish(prop, mod, args, seed, cells, results, t0):
    findings = load_known_findings()
    n_ob = n_dis = n_struct = n_struct_ok = 0
    n_can = n_can_ok = 0
    inconclusive = []
    violations = []
    known_hits = {}
    nontrivial = set()
    samples = []
    interp_tot = {}
    solver_tot = {}
    cross = {}
    validated = 0
    notes = []
    if os.environ.get("VERIF_TIMES"):
        for r in sorted(results, key=lambda q: -q["wall_s"])[:15]:
            print(f"  cell {r['wall_s']:.1f}s solver={r['solver'].get('solver_s', 0):.1f}s", json.dumps(_jsonable(r["cfg"]))[:200])
    for r in results:
        if r["error"]:
            inconclusive.append({"cfg": r["cfg"], "why": r["error"]["kind"] + ": " + r["error"]["msg"],
                                 "tb": r["error"].get("tb", "")})
        nontrivial.update(r["nontrivial"])
        validated += r["validated"]
        notes.extend(r["notes"])
        if r["samples"] and len(samples) < 4:
            samples.extend(r["samples"][:1])
        for k, v in r["interp"].items():
            interp_tot[k] = interp_tot.get(k, 0) + v
        for k, v in r["solver"].items():
            solver_tot[k] = solver_tot.get(k, 0) + v
        for rec in r["records"]:
            if rec.get("crosscheck"):
                cross["scripts"] = cross.get("scripts", 0) + 1
                for k_, v_ in rec["crosscheck"].items():
                    if k_ != "logic":
                        cross[f"{k_}:{str(v_)[:12]}"] = cross.get(f"{k_}:{str(v_)[:12]}", 0) + 1
            if rec.get("canary"):
                n_can += 1
                if rec["status"] == "sat" and rec.get("reproduced") in (True, None):
                    n_can_ok += 1
                else:
                    inconclusive.append({"cfg": rec["cfg"], "why": f"canary {rec['name']} not refuted "
                                         f"(status={rec['status']} reproduced={rec.get('reproduced')} {rec.get('replay_detail','')})"})
                continue
            if rec.get("structural"):
                n_struct += 1
            else:
                n_ob += 1
            if rec["status"] == "unsat":
                if rec.get("structural"):
                    n_struct_ok += 1
                else:
                    n_dis += 1
            elif rec["status"] == "sat":
                if rec.get("reproduced") is False or (rec.get("reproduced") is None and not rec.get("structural")):
                    inconclusive.append({"cfg": rec["cfg"], "why": f"witness for {rec['name']} did not reproduce on "
                                         f"the real code (or no replay is defined): {rec.get('replay_detail')} witness={str(rec.get('witness'))[:300]}"})
                else:
                    violations.append(rec)
            else:
                inconclusive.append({"cfg": rec["cfg"], "why": f"{rec['name']}: solver {rec['status']} ({rec.get('detail')})"})

    new_viol = []
    os.makedirs(os.path.join(ROOT, "replays"), exist_ok=True)
    for v in violations:
        kf = _match_known(prop, v["key"], findings)
        if kf is not None:
            known_hits.setdefault(kf["id"], {"finding": kf, "n": 0, "keys": []})
            known_hits[kf["id"]]["n"] += 1
            if len(known_hits[kf["id"]]["keys"]) < 5:
                known_hits[kf["id"]]["keys"].append(v["key"])
        else:
            new_viol.append(v)
    for kid, h in known_hits.items():
        print(f"KNOWN-FINDING: property={prop} {h['finding']['what']} [{kid}; {h['n']} obligation(s), e.g. {h['keys'][0]}]")
    if os.environ.get("VERIF_DUMP"):
        with open(os.environ["VERIF_DUMP"], "w") as f:
            for v in violations:
                f.write(v["key"] + " :: " + str(v.get("replay_detail") or v.get("detail")) + "\n")
    vio_lines = []
    for v in new_viol[:20]:
        hh = hashlib.sha1(json.dumps(_jsonable([v["cfg"], v["name"]]), sort_keys=True).encode()).hexdigest()[:12]
        path = os.path.join(ROOT, "replays", f"{prop}_{hh}.json")
        with open(path, "w") as f:
            json.dump(_jsonable({"property": prop, "cfg": v["cfg"], "obligation": v["name"], "key": v["key"],
                                 "tier": args.tier, "witness": v.get("witness", {}), "bwitness": v.get("bwitness", {}),
                                 "detail": v.get("replay_detail") or v.get("detail")}), f, indent=1)
        vio_lines.append(f"VIOLATION property={prop} replay={path}")
        print(f"  violated obligation {v['name']} key={v['key']}: {v.get('replay_detail') or v.get('detail')}")
    for ln in vio_lines:
        print(ln)
    wall = time.time() - t0
    info = getattr(mod, "INFO", {})
    exhaustive = bool(getattr(mod, "exhaustive", lambda tier: False)(args.tier)) and not inconclusive
    ev = {
        "property_id": prop, "tier": args.tier, "seed": seed, "level": "other",
        "coverage": {
            "explanation": info.get("explanation", "") + " Every obligation is a z3 query over all real values of the "
            "symbolic arrays of one enumerated configuration (bounded: see 'bounds'); unsat = holds for that configuration.",
            "evaluations": len(cells),
            "distinct_nontrivial": len(nontrivial),
            "rule": "one evaluation = one configuration cell (symbolic execution of the real functions + its obligations); "
                    "an obligation is non-trivial when its negated goal mentions at least one solver variable; distinct = distinct "
                    "hash of the (lhs,rhs) polynomial pairs",
            "samples": samples[:4] or [{"note": "no sample recorded"}],
            "obligations": n_ob, "discharged": n_dis,
            "structural_facts": n_struct, "structural_facts_ok": n_struct_ok,
            "canaries": n_can, "canaries_refuted": n_can_ok,
            "known_findings_hit": {k: h["n"] for k, h in known_hits.items()},
            "crosschecked_with_other_solvers": cross,
            "traces_validated_against_impl": validated,
            "checker_cmd": f"./vcheck {prop} --tier {args.tier}",
            "trusted_base": ["jax tracer (make_jaxpr) and the real primitives used for concrete / element-id evaluation",
                             "z3 5.1.0", "jxsmt polynomial front-end and native conv/dot rules (cross-validated per use)"],
            "functions_encoded": info.get("functions", []),
            "bounds": info.get("bounds", {}).get(args.tier, info.get("bounds", {})),
            "outside_claim": info.get("outside", []),
            "interpreter": interp_tot, "solver": {k: (round(v, 3) if isinstance(v, float) else v) for k, v in solver_tot.items()},
            "inconclusive": len(inconclusive),
            "max_query_s": max([rec.get("solver_s", 0.0) for r in results for rec in r["records"]] + [0.0]),
            "exhaustive": exhaustive,
            "notes": sorted(set(notes))[:20],
        },
        "assumptions": info.get("assumptions", []),
        "wall_s": round(wall, 2),
        "violations": len(new_viol),
    }
    if not args.no_evidence and not args.only:
        os.makedirs(os.path.join(ROOT, "evidence"), exist_ok=True)
        with open(os.path.join(ROOT, "evidence", f"{prop}.json"), "w") as f:
            json.dump(_jsonable(ev), f, indent=1)
    print(f"[{prop} {args.tier}] cells={len(cells)} obligations={n_ob} discharged={n_dis} structural={n_struct_ok}/{n_struct} "
          f"canaries={n_can_ok}/{n_can} known={sum(h['n'] for h in known_hits.values())} new_violations={len(new_viol)} "
          f"inconclusive={len(inconclusive)} wall={wall:.1f}s solver={solver_tot.get('solver_s', 0):.1f}s")
    for inc in inconclusive[:10]:
        print("INCONCLUSIVE:", json.dumps(_jsonable(inc["cfg"]))[:300], "::", inc["why"][:600])
        if inc.get("tb"):
            print(inc["tb"][-1500:])
    if new_viol:
        return 1
    if inconclusive:
        return 3
    return 0


if __name__ == "__main__":
    sys.exit(main())
