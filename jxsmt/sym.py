"""Symbolic scalar domain for JXSMT.

A real scalar is a polynomial with exact rational coefficients over *atoms*.  Atoms are
hash-consed on their canonical arguments and live in a process-global context (`CTX`):

  var   : a solver variable (input entry, parameter, ...)
  sqrt  : s with  s >= 0 and s*s = arg         (arg a polynomial)
  recip : r with  r*arg = 1                    (division; arg assumed non-zero)
  ite   : ite(cond, a, b)                      (cond a BoolE)
  uf    : application of an uninterpreted function symbol to polynomial arguments

Booleans (BoolE) are comparison atoms over polynomials combined with and/or/not plus opaque
boolean variables.  Symbolic integers (Cases) are guarded case lists over finitely many ints.

Normalising to a ring normal form is ordinary front-end rewriting; every verdict is still z3's.
"""
from __future__ import annotations

from fractions import Fraction
import math
import numpy as np


def _norm(c):
    if type(c) is Fraction and c.denominator == 1:
        return c.numerator
    return c


def to_coef(v):
    """Exact rational value of a python/numpy number (floats at their exact binary value)."""
    if isinstance(v, (bool, np.bool_)):
        return int(v)
    if isinstance(v, (int, np.integer)):
        return int(v)
    if isinstance(v, Fraction):
        return _norm(v)
    f = float(v)
    if not math.isfinite(f):
        raise ValueError(f"non-finite constant {v!r}")
    if f == int(f) and abs(f) < 2**62:
        return int(f)
    return _norm(Fraction(f))


class Ctx:
    def __init__(self):
        self.reset()

    def reset(self):
        self.atoms = []  # id -> (kind, payload)
        self.key2id = {}
        self.bvars = []  # names of boolean variables
        self.bvar_set = set()
        self.uf_sigs = {}  # fname -> arity
        self.sqrt_ids = set()  # ids of sqrt atoms (s*s is rewritten to its radicand when polynomials are multiplied)

    def atom(self, kind, key, payload):
        k = (kind, key)
        i = self.key2id.get(k)
        if i is None:
            i = len(self.atoms)
            self.atoms.append((kind, payload))
            self.key2id[k] = i
            if kind == "sqrt":
                self.sqrt_ids.add(i)
        return i

    def var(self, name):
        return Poly({(self.atom("var", name, name),): 1})

    def bvar(self, name):
        if name not in self.bvar_set:
            self.bvar_set.add(name)
            self.bvars.append(name)
        return BoolE("bvar", (name,))


CTX = Ctx()


class Poly:
    __slots__ = ("t", "_key")

    def __init__(self, t):
        self.t = t
        self._key = None

    # ---- constructors
    @staticmethod
    def const(c):
        c = to_coef(c)
        return Poly({(): c} if c else {})

    def key(self):
        k = self._key
        if k is None:
            k = self._key = tuple(sorted(self.t.items()))
        return k

    def __hash__(self):
        return hash(self.key())

    def __eq__(self, o):  # structural equality (NOT a symbolic comparison)
        if not isinstance(o, Poly):
            o = Poly.const(o)
        return self.t == o.t

    def is_const(self):
        return not self.t or (len(self.t) == 1 and () in self.t)

    def const_value(self):
        return self.t.get((), 0)

    def is_zero(self):
        return not self.t

    def degree(self):
        return max((len(m) for m in self.t), default=0)

    def atoms(self):
        s = set()
        for m in self.t:
            s.update(m)
        return s

    # ---- ring ops
    def __add__(a, b):
        if not isinstance(b, Poly):
            if isinstance(b, (BoolE, Cases)):
                return NotImplemented
            b = Poly.const(b)
        if len(a.t) < len(b.t):
            a, b = b, a
        t = dict(a.t)
        for m, c in b.t.items():
            v = t.get(m)
            if v is None:
                t[m] = c
            else:
                v = _norm(v + c)
                if v:
                    t[m] = v
                else:
                    del t[m]
        return Poly(t)

    __radd__ = __add__

    def __neg__(a):
        return Poly({m: -c for m, c in a.t.items()})

    def __sub__(a, b):
        if not isinstance(b, Poly):
            b = Poly.const(b)
        return a + (-b)

    def __rsub__(a, b):
        return (-a) + b

    def __mul__(a, b):
        if not isinstance(b, Poly):
            if isinstance(b, (BoolE, Cases)):
                return NotImplemented
            c = to_coef(b)
            if not c:
                return Poly({})
            if c == 1:
                return a
            return Poly({m: _norm(v * c) for m, v in a.t.items()})
        if not a.t or not b.t:
            return Poly({})
        if len(b.t) == 1:
            a, b = b, a
        if len(a.t) == 1:
            (m1, c1), = a.t.items()
            if not m1:
                return Poly({m: _norm(v * c1) for m, v in b.t.items()}) if c1 != 1 else b
            return _unsquare(Poly({tuple(sorted(m1 + m2)): _norm(c1 * c2) for m2, c2 in b.t.items()}))
        t = {}
        for m1, c1 in a.t.items():
            for m2, c2 in b.t.items():
                m = tuple(sorted(m1 + m2)) if (m1 and m2) else (m1 or m2)
                v = t.get(m)
                v = _norm(c1 * c2) if v is None else _norm(v + c1 * c2)
                if v:
                    t[m] = v
                elif m in t:
                    del t[m]
        return _unsquare(Poly(t))

    __rmul__ = __mul__

    def __pow__(a, n):
        assert isinstance(n, (int, np.integer)) and n >= 0
        r = Poly.const(1)
        for _ in range(int(n)):
            r = r * a
        return r

    def __truediv__(a, b):
        if isinstance(b, Poly):
            if b.is_const():
                return a * _norm(Fraction(1) / Fraction(b.const_value()))
            return a * recip(b)
        return a * _norm(Fraction(1) / Fraction(to_coef(b)))

    def __rtruediv__(a, b):
        return Poly.const(b) * recip(a)

    def __repr__(self):
        if not self.t:
            return "0"
        parts = []
        for m, c in sorted(self.t.items()):
            parts.append(f"{c}" + "".join(f"*{atom_name(i)}" for i in m))
        return " + ".join(parts)

    # ---- evaluation under a float/Fraction assignment of atoms
    def eval(self, val):
        tot = 0
        for m, c in self.t.items():
            p = c
            for i in m:
                p = p * val(i)
            tot = tot + p
        return tot


ZERO = Poly({})
ONE = Poly({(): 1})


def as_poly(x):
    return x if isinstance(x, Poly) else Poly.const(x)


def atom_name(i):
    kind, payload = CTX.atoms[i]
    if kind == "var":
        return payload
    return f"a{i}"


# --------------------------------------------------------------------------- defined atoms
def _unsquare(p):
    """sqrt(q) * sqrt(q) -> q (real semantics; q >= 0 is what sqrt's own defining axiom assumes): a front-end rewrite, so that
    `norm ** 2` and `sum of squares` are the same polynomial however the code spells them."""
    sq = CTX.sqrt_ids
    if not sq:
        return p
    hit = False
    for m in p.t:
        if len(m) >= 2:
            for j in range(len(m) - 1):
                if m[j] == m[j + 1] and m[j] in sq:
                    hit = True
                    break
        if hit:
            break
    if not hit:
        return p
    out = Poly({})
    for m, c in p.t.items():
        j = next((j for j in range(len(m) - 1) if m[j] == m[j + 1] and m[j] in sq), None)
        if j is None:
            out = out + Poly({m: c})
        else:
            rest = m[:j] + m[j + 2:]
            out = out + Poly({rest: c}) * CTX.atoms[m[j]][1]   # recursion through __mul__ handles further squares
    return out


def sqrt(p):
    p = as_poly(p)
    if p.is_const():
        c = Fraction(p.const_value())
        if c >= 0:
            n, d = math.isqrt(c.numerator), math.isqrt(c.denominator)
            if n * n == c.numerator and d * d == c.denominator:
                return Poly.const(Fraction(n, d))
    i = CTX.atom("sqrt", p.key(), p)
    return Poly({(i,): 1})


def recip(p):
    p = as_poly(p)
    if p.is_const():
        return Poly.const(Fraction(1) / Fraction(p.const_value()))
    # pull out a scalar factor so that c*q and q share one atom
    # pull out a scalar factor of a single-term argument so that c*q and q share one atom; otherwise only the sign
    if len(p.t) == 1:
        (m, c), = p.t.items()
        if c != 1:
            return recip(Poly({m: 1})) * _norm(Fraction(1) / Fraction(c))
    lead = min(p.t)
    if p.t[lead] < 0:
        q = -p
        i = CTX.atom("recip", q.key(), q)
        return Poly({(i,): -1})
    i = CTX.atom("recip", p.key(), p)
    return Poly({(i,): 1})


def ite(c, a, b):
    a, b = as_poly(a), as_poly(b)
    if c.op == "true":
        return a
    if c.op == "false":
        return b
    if a.t == b.t:
        return a
    i = CTX.atom("ite", (c.key(), a.key(), b.key()), (c, a, b))
    return Poly({(i,): 1})


def uf(fname, args):
    args = tuple(as_poly(a) for a in args)
    ar = CTX.uf_sigs.setdefault(fname, len(args))
    assert ar == len(args), f"uf {fname}: arity {ar} vs {len(args)}"
    i = CTX.atom("uf", (fname, tuple(a.key() for a in args)), (fname, args))
    return Poly({(i,): 1})


def define(p, threshold):
    """Let-abstraction: a polynomial with more than `threshold` terms is replaced by a hash-consed 'def' atom
    (normalised so that scalar multiples share one atom).  The defining equation a = p is an axiom that the
    first (abstract) query drops and the refined query includes, exactly like sqrt / recip."""
    if threshold is None or len(p.t) <= threshold:
        return p
    lead = min(p.t)
    neg = p.t[lead] < 0
    q = -p if neg else p
    i = CTX.atom("def", q.key(), q)
    r = Poly({(i,): 1})
    return -r if neg else r


def maxsel(cands):
    """The value whose comparator is the strict maximum among cands = [(comparator Poly, value Poly)].
    Order-independent by construction (canonical key = sorted pairs): this builds in the precondition that the maximum
    is attained exactly once.  Axioms (refined query only): (AND_{j!=i} cmp_j < cmp_i) => atom = value_i."""
    cands = [(as_poly(t), as_poly(v)) for t, v in cands]
    if all(v.t == cands[0][1].t for _, v in cands):
        return cands[0][1]
    # selection is linear in the values: factor out a common SIGN so that maxsel{(t_i, -v_i)} = -maxsel{(t_i, v_i)} share
    # one atom (sign of the leading coefficient of the value attached to the smallest comparator key); magnitudes are not
    # normalised: dividing by leading coefficients makes exact rationals grow with network depth
    by_tag = sorted(cands, key=lambda tv: tv[0].key())
    c = 1
    for _, v in by_tag:
        if v.t:
            c = 1 if v.t[min(v.t)] > 0 else -1
            break
    if c != 1:
        cands = [(t, -v) for t, v in cands]
    srt = sorted(cands, key=lambda tv: (tv[0].key(), tv[1].key()))
    i = CTX.atom("maxsel", tuple((t.key(), v.key()) for t, v in srt), tuple(srt))
    r = Poly({(i,): 1})
    return r if c == 1 else r * c


def pmax(a, b):
    a, b = as_poly(a), as_poly(b)
    if a.t == b.t:
        return a
    # canonical orientation so max(a,b) and max(b,a) share an atom
    if a.key() > b.key():
        a, b = b, a
    return ite(lt(a, b), b, a)


def pmin(a, b):
    a, b = as_poly(a), as_poly(b)
    if a.t == b.t:
        return a
    if a.key() > b.key():
        a, b = b, a
    return ite(lt(a, b), a, b)


def pabs(a):
    a = as_poly(a)
    if a.is_const():
        return Poly.const(abs(Fraction(a.const_value())))
    # |a| == |-a|: orient on the sign of the leading coefficient
    lead = min(a.t)
    if a.t[lead] < 0:
        a = -a
    return ite(lt(a, ZERO), -a, a)


def psign(a):
    a = as_poly(a)
    flip = False
    if not a.is_const():
        lead = min(a.t)
        if a.t[lead] < 0:
            a, flip = -a, True
    r = ite(lt(ZERO, a), ONE, ite(lt(a, ZERO), -ONE, ZERO))
    return -r if flip else r


# --------------------------------------------------------------------------- booleans
class BoolE:
    __slots__ = ("op", "args", "_key")

    def __init__(self, op, args=()):
        self.op = op
        self.args = args
        self._key = None

    def key(self):
        k = self._key
        if k is None:
            if self.op in ("lt0", "le0", "eq0"):
                k = (self.op, self.args[0].key())
            elif self.op in ("and", "or", "not"):
                k = (self.op,) + tuple(a.key() for a in self.args)
            else:
                k = (self.op,) + tuple(self.args)
            self._key = k
        return k

    def __hash__(self):
        return hash(self.key())

    def __eq__(self, o):
        return isinstance(o, BoolE) and self.key() == o.key()

    def __and__(a, b):
        return band(a, b)

    def __or__(a, b):
        return bor(a, b)

    def __invert__(a):
        return bnot(a)

    def __repr__(self):
        return f"B{self.key()!r}"

    def eval(self, val, bval=None):
        op = self.op
        if op == "true":
            return True
        if op == "false":
            return False
        if op == "lt0":
            return self.args[0].eval(val) < 0
        if op == "le0":
            return self.args[0].eval(val) <= 0
        if op == "eq0":
            return self.args[0].eval(val) == 0
        if op == "and":
            return all(a.eval(val, bval) for a in self.args)
        if op == "or":
            return any(a.eval(val, bval) for a in self.args)
        if op == "not":
            return not self.args[0].eval(val, bval)
        if op == "bvar":
            return bool(bval(self.args[0]))
        raise ValueError(op)


TRUE = BoolE("true")
FALSE = BoolE("false")


def bconst(b):
    return TRUE if b else FALSE


def _cmp0(op, p):
    if p.is_const():
        c = p.const_value()
        return bconst({"lt0": c < 0, "le0": c <= 0, "eq0": c == 0}[op])
    return BoolE(op, (p,))


def lt(a, b):
    return _cmp0("lt0", as_poly(a) - as_poly(b))


def le(a, b):
    return _cmp0("le0", as_poly(a) - as_poly(b))


def eq(a, b):
    p = as_poly(a) - as_poly(b)
    if not p.is_const():
        lead = min(p.t)
        if p.t[lead] < 0:
            p = -p
    return _cmp0("eq0", p)


def bnot(a):
    if a.op == "true":
        return FALSE
    if a.op == "false":
        return TRUE
    if a.op == "not":
        return a.args[0]
    return BoolE("not", (a,))


def band(*xs):
    out = []
    for x in xs:
        if x.op == "false":
            return FALSE
        if x.op == "true":
            continue
        if x.op == "and":
            out.extend(x.args)
        else:
            out.append(x)
    if not out:
        return TRUE
    if len(out) == 1:
        return out[0]
    return BoolE("and", tuple(out))


def bor(*xs):
    out = []
    for x in xs:
        if x.op == "true":
            return TRUE
        if x.op == "false":
            continue
        if x.op == "or":
            out.extend(x.args)
        else:
            out.append(x)
    if not out:
        return FALSE
    if len(out) == 1:
        return out[0]
    return BoolE("or", tuple(out))


# --------------------------------------------------------------------------- symbolic ints
class Cases:
    """A symbolic integer: mutually exclusive, exhaustive guarded cases [(BoolE, int)]."""

    __slots__ = ("cases", "tags")

    def __init__(self, cases, tags=None):
        """tags (optional, parallel to cases): for an argmax result, tags[j] is the comparator whose being the strict
        maximum selects case j (used to build order-independent `maxsel` atoms)."""
        merged = {}
        n_in = 0
        for c, v in cases:
            n_in += 1
            if c.op == "false":
                continue
            v = int(v)
            merged[v] = bor(merged[v], c) if v in merged else c
        self.cases = tuple((c, v) for v, c in merged.items())
        self.tags = tuple(tags) if (tags is not None and len(self.cases) == n_in == len(tags)) else None

    @staticmethod
    def const(v):
        return Cases([(TRUE, int(v))])

    def is_const(self):
        return len(self.cases) == 1 and self.cases[0][0].op == "true"

    def map(self, f):
        return Cases([(c, f(v)) for c, v in self.cases], self.tags)

    def map2(self, other, f):
        if not isinstance(other, Cases):
            o = int(other)
            return self.map(lambda v: f(v, o))
        if other.is_const():
            o = other.cases[0][1]
            return self.map(lambda v: f(v, o))
        if self.is_const():
            o = self.cases[0][1]
            return other.map(lambda v: f(o, v))
        return Cases([(band(c1, c2), f(v1, v2)) for c1, v1 in self.cases for c2, v2 in other.cases])

    def pred(self, f):
        return bor(*[c for c, v in self.cases if f(v)])

    def pred2(self, other, f):
        if not isinstance(other, Cases):
            o = int(other)
            return self.pred(lambda v: f(v, o))
        return bor(*[band(c1, c2) for c1, v1 in self.cases for c2, v2 in other.cases if f(v1, v2)])

    def to_poly(self):
        r = None
        for c, v in reversed(self.cases):
            r = Poly.const(v) if r is None else ite(c, Poly.const(v), r)
        return r

    def values(self):
        return [v for _, v in self.cases]

    def __repr__(self):
        return f"Cases{self.cases!r}"

    def eval(self, val, bval=None):
        for c, v in self.cases:
            if c.eval(val, bval):
                return v
        raise ValueError("no case holds")


def select_cases(c, a, b):
    """ite on symbolic ints."""
    a = a if isinstance(a, Cases) else Cases.const(a)
    b = b if isinstance(b, Cases) else Cases.const(b)
    if c.op == "true":
        return a
    if c.op == "false":
        return b
    return Cases([(band(c, ca), va) for ca, va in a.cases] + [(band(bnot(c), cb), vb) for cb, vb in b.cases])


# --------------------------------------------------------------------------- arrays
class Sym:
    """A symbolic array: numpy object array of Poly ('real'), BoolE ('bool') or Cases ('int')."""

    __slots__ = ("a", "kind", "dtype")

    def __init__(self, a, kind="real", dtype=None):
        self.a = a
        self.kind = kind
        self.dtype = dtype or {"real": np.dtype("float32"), "bool": np.dtype("bool"), "int": np.dtype("int32")}[kind]

    @property
    def shape(self):
        return self.a.shape

    @property
    def size(self):
        return self.a.size

    @property
    def ndim(self):
        return self.a.ndim

    def __getitem__(self, idx):
        r = self.a[idx]
        if not isinstance(r, np.ndarray):
            rr = np.empty((), dtype=object)
            rr[()] = r
            r = rr
        return Sym(r, self.kind, self.dtype)

    def reshape(self, *shape):
        return Sym(self.a.reshape(*shape), self.kind, self.dtype)

    def __repr__(self):
        return f"Sym<{self.kind}{self.shape}>"


def obj_array(shape, fill):
    a = np.empty(shape, dtype=object)
    flat = a.reshape(-1)
    for i in range(flat.size):
        flat[i] = fill(i)
    return a


def var_array(name, shape):
    shape = tuple(int(s) for s in shape)
    idx = list(np.ndindex(*shape)) if shape else [()]
    a = np.empty(shape, dtype=object)
    for ix in idx:
        a[ix] = CTX.var(name + "".join(f"_{j}" for j in ix))
    return Sym(a, "real")


ABSTRACT_FLOATS = False  # lift "ugly" float constants met by the interpreter to abstract constant atoms
CONST_VALUES = {}  # name -> Fraction, for abstracted numeric constants (see abstract_constants)


def abstract_constants(x, prefix="K"):
    """Lift a concrete float array to a Sym array in which every distinct non-zero magnitude is one atom (sign kept
    explicit, zeros kept zero).  The defining equations atom = value are axioms of the refined query only: an `unsat` of
    the abstract query therefore holds for EVERY array with the same pattern of equal magnitudes and signs, in particular
    for the given one.  Keeps exact rational coefficients from growing with network depth."""
    x = np.asarray(x)
    a = np.empty(x.shape, dtype=object)
    flat = a.reshape(-1)
    xf = x.reshape(-1)
    for i in range(flat.size):
        v = float(xf[i])
        if v == 0.0:
            flat[i] = ZERO
            continue
        mag = Fraction(abs(v))
        name = f"{prefix}_{mag.numerator}_{mag.denominator}"
        CONST_VALUES[name] = mag
        p = CTX.var(name)
        flat[i] = p if v > 0 else -p
    return Sym(a, "real")


def const_array(x, kind=None):
    """Lift a concrete array to a Sym array of constants."""
    x = np.asarray(x)
    if kind is None:
        kind = "bool" if x.dtype == bool else ("int" if np.issubdtype(x.dtype, np.integer) else "real")
    a = np.empty(x.shape, dtype=object)
    flat = a.reshape(-1)
    xf = x.reshape(-1)
    if kind == "real":
        cache = {}
        for i in range(flat.size):
            v = xf[i].item()
            p = cache.get(v)
            if p is None:
                if ABSTRACT_FLOATS and isinstance(v, float) and math.isfinite(v) and v != 0.0 and Fraction(v).denominator > 4096:
                    # non-dyadic-looking float constant (eps, activation constants, ...): one atom per magnitude, value as a
                    # refinement axiom (see abstract_constants)
                    mag = Fraction(abs(v))
                    name = f"K_{mag.numerator}_{mag.denominator}"
                    CONST_VALUES[name] = mag
                    p = CTX.var(name) if v > 0 else -CTX.var(name)
                elif isinstance(v, float) and not math.isfinite(v):
                    # nan / inf constants (e.g. the unreachable branch of a where): an unconstrained atom, so an
                    # obligation it reaches cannot be discharged silently
                    p = CTX.var("NONFINITE")
                else:
                    p = Poly.const(v)
                cache[v] = p
            flat[i] = p
    elif kind == "bool":
        for i in range(flat.size):
            flat[i] = bconst(bool(xf[i]))
    else:
        for i in range(flat.size):
            flat[i] = Cases.const(int(xf[i]))
    return Sym(a, kind, x.dtype if kind != "real" else np.dtype("float32"))


def is_sym(x):
    return isinstance(x, Sym)


# --------------------------------------------------------------------------- numeric evaluation (replays)
def eval_poly(p, varvals, bvals=None, _memo=None):
    """Float value of a polynomial under an assignment of the input variables; defined atoms are evaluated from their
    definitions (sqrt, recip, ite, def, maxsel, abstract constants).  Uninterpreted functions cannot be evaluated."""
    memo = {} if _memo is None else _memo

    def atom_val(i):
        if i in memo:
            return memo[i]
        kind, payload = CTX.atoms[i]
        if kind == "var":
            v = float(CONST_VALUES[payload]) if payload in CONST_VALUES else float(varvals.get(payload, 0.0))
        elif kind == "sqrt":
            v = math.sqrt(max(payload.eval(atom_val), 0.0))
        elif kind == "recip":
            v = 1.0 / payload.eval(atom_val)
        elif kind == "def":
            v = payload.eval(atom_val)
        elif kind == "ite":
            c, a, b = payload
            v = a.eval(atom_val) if c.eval(atom_val, (lambda n: (bvals or {}).get(n, False))) else b.eval(atom_val)
        elif kind == "maxsel":
            best = max(payload, key=lambda tv: tv[0].eval(atom_val))
            v = best[1].eval(atom_val)
        else:
            raise ValueError(f"cannot evaluate atom of kind {kind}")
        memo[i] = v
        return v
    return float(p.eval(atom_val))


def eval_bool(b, varvals, bvals=None):
    """Truth value of a Boolean expression under an assignment of the INPUT variables, every defined atom (sqrt, recip, def,
    ite, maxsel) evaluated from its definition - i.e. what the formula means on the concrete input, not in an abstract model."""
    memo = {}

    def atom_val(i):
        if i not in memo:
            memo[i] = eval_poly(Poly({(i,): 1}), varvals, bvals, memo)
        return memo[i]
    return bool(b.eval(atom_val, (lambda n: (bvals or {}).get(n, False))))


def eval_array(a, varvals, bvals=None):
    a = a.a if isinstance(a, Sym) else np.asarray(a, dtype=object)
    out = np.empty(a.shape, dtype=np.float64)
    memo = {}
    of = out.reshape(-1)
    for j, p in enumerate(a.reshape(-1)):
        of[j] = eval_poly(as_poly(p), varvals, bvals, memo)
    return out
