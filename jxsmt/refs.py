"""Harness-side reference implementations written from the property statements, independent of the
repo.  They work on numpy arrays of any dtype (object arrays of Poly, floats, Fractions)."""
from __future__ import annotations

import itertools
from fractions import Fraction

import numpy as np


def signed_perm(g):
    """g (DxD signed permutation, integer entries) -> (perm, sign) with g[i, perm[i]] = sign[i]."""
    g = np.asarray(g)
    D = g.shape[0]
    perm, sign = [], []
    for i in range(D):
        nz = np.nonzero(g[i])[0]
        assert len(nz) == 1 and abs(int(g[i, nz[0]])) == 1, f"not a signed permutation: {g.tolist()}"
        perm.append(int(nz[0]))
        sign.append(int(g[i, nz[0]]))
    assert sorted(perm) == list(range(D))
    return perm, sign


def det_signed_perm(g):
    return int(round(float(np.linalg.det(np.asarray(g, dtype=float)))))


def all_signed_perms(D):
    out = []
    for p in itertools.permutations(range(D)):
        for s in itertools.product([1, -1], repeat=D):
            g = np.zeros((D, D), dtype=int)
            for i in range(D):
                g[i, p[i]] = s[i]
            out.append(g)
    return out


def rotated_dims(g, dims):
    perm, _ = signed_perm(g)
    return tuple(int(dims[perm[i]]) for i in range(len(dims)))


def pixel_map(g, dims):
    """For every output pixel x of g.A the source pixel y = g^-1 (x - c') + c  (exact rationals)."""
    perm, sign = signed_perm(g)
    D = len(dims)
    nd = rotated_dims(g, dims)
    c_new = [Fraction(n - 1, 2) for n in nd]
    c_old = [Fraction(n - 1, 2) for n in dims]
    gi = np.asarray(g).T
    mp = {}
    for x in itertools.product(*[range(n) for n in nd]):
        y = []
        for j in range(D):
            v = sum(int(gi[j, i]) * (Fraction(x[i]) - c_new[i]) for i in range(D)) + c_old[j]
            assert v.denominator == 1 and 0 <= v < dims[j], (x, j, v)
            y.append(int(v))
        mp[x] = tuple(y)
    return nd, mp


def ref_action(D, a, parity, g, lead=0):
    """(g.A)(x) = det(g)^p g^{(x)k} A(g^-1 (x-c') + c), for arrays with `lead` leading axes."""
    a = np.asarray(a) if not isinstance(a, np.ndarray) else a
    dims = a.shape[lead: lead + D]
    k = a.ndim - lead - D
    perm, sign = signed_perm(g)
    det = det_signed_perm(g)
    nd, mp = pixel_map(g, dims)
    out = np.empty(a.shape[:lead] + nd + (D,) * k, dtype=a.dtype)
    pf = det if (parity % 2) else 1
    for x, y in mp.items():
        for comp in itertools.product(range(D), repeat=k):
            s = pf
            for i in comp:
                s *= sign[i]
            src = tuple(perm[i] for i in comp)
            idx_out = (slice(None),) * lead + x + comp
            idx_in = (slice(None),) * lead + y + src
            out[idx_out] = a[idx_in] * s if s != 1 else a[idx_in]
    return out


def ref_roll(a, shift, axes):
    return np.roll(a, shift, axis=axes)


def ref_pad_image(P, D, lead, is_torus, wrap, zero_pad, lhs_dilation, zero):
    """Build the padded/interleaved image of the C04 statement for one array with `lead` leading
    axes followed by D spatial axes (tensor axes after).  Order as documented for the code: wrap
    (toroidal axes), then zero-interleave, then zero-pad."""
    a = P
    for d in range(D):
        ax = lead + d
        w = wrap[d]
        if w[0] or w[1]:
            n = a.shape[ax]
            idx = [(i % n) for i in range(-w[0], n + w[1])]
            a = np.take(a, idx, axis=ax)
    for d in range(D):
        ax = lead + d
        L = lhs_dilation[d]
        if L > 1:
            n = a.shape[ax]
            newn = (n - 1) * L + 1 if n > 0 else 0
            shp = list(a.shape)
            shp[ax] = newn
            b = np.empty(shp, dtype=a.dtype)
            b[...] = zero
            sl = [slice(None)] * a.ndim
            sl[ax] = slice(0, newn, L)
            b[tuple(sl)] = a
            a = b
    for d in range(D):
        ax = lead + d
        lo, hi = zero_pad[d]
        if lo < 0:
            sl = [slice(None)] * a.ndim
            sl[ax] = slice(-lo, None)
            a = a[tuple(sl)]
            lo = 0
        if hi < 0:
            sl = [slice(None)] * a.ndim
            sl[ax] = slice(0, a.shape[ax] + hi)
            a = a[tuple(sl)]
            hi = 0
        if lo or hi:
            shp = list(a.shape)
            shp[ax] = a.shape[ax] + lo + hi
            b = np.empty(shp, dtype=a.dtype)
            b[...] = zero
            sl = [slice(None)] * a.ndim
            sl[ax] = slice(lo, lo + a.shape[ax])
            b[tuple(sl)] = a
            a = b
    return a


def ref_convolve(D, image, filt, wrap, zero_pad, stride, lhs_dilation, rhs_dilation, zero):
    """out[b,o,i,(image comps),(filter comps)] = sum_c sum_a P[b,c,i*s + a*delta] (x) F[o,c,a]
    image: (batch,in_c,spatial,(D,)*k); filt: (out_c,in_c,fspatial,(D,)*k')."""
    P = ref_pad_image(image, D, 2, None, wrap, zero_pad, lhs_dilation, zero)
    B, C = P.shape[:2]
    O = filt.shape[0]
    psp = P.shape[2:2 + D]
    fsp = filt.shape[2:2 + D]
    k = P.ndim - 2 - D
    kp = filt.ndim - 2 - D
    osp = tuple(max(0, (psp[d] - ((fsp[d] - 1) * rhs_dilation[d] + 1)) // stride[d] + 1) for d in range(D))
    out = np.empty((B, O) + osp + (D,) * (k + kp), dtype=object)
    comps_i = list(itertools.product(range(D), repeat=k))
    comps_f = list(itertools.product(range(D), repeat=kp))
    for b in range(B):
        for o in range(O):
            for i in itertools.product(*[range(n) for n in osp]):
                for ci in comps_i:
                    for cf in comps_f:
                        acc = zero
                        for c in range(C):
                            for a in itertools.product(*[range(n) for n in fsp]):
                                pos = tuple(i[d] * stride[d] + a[d] * rhs_dilation[d] for d in range(D))
                                acc = acc + P[(b, c) + pos + ci] * filt[(o, c) + a + cf]
                        out[(b, o) + i + ci + cf] = acc
    return out


def burnside_count(ops, M, k, parity):
    """dim of the G-fixed subspace of M^D pixel, D^k component filters:
    (1/|G|) sum_g #fixedpixels(g) tr(g)^k det(g)^p  — exact integers."""
    D = np.asarray(ops[0]).shape[0]
    tot = Fraction(0)
    for g in ops:
        g = np.asarray(g)
        nd, mp = pixel_map(g, (M,) * D)
        fixed = sum(1 for x, y in mp.items() if x == y)
        tr = int(np.trace(g))
        det = det_signed_perm(g)
        tot += fixed * (tr ** k) * (det ** (parity % 2))
    tot /= len(ops)
    assert tot.denominator == 1, tot
    return int(tot)
