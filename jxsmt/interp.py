"""Symbolic interpreter for jaxprs (JXSMT engine, DESIGN.md section 2.1).

Values are concrete (jax / numpy arrays) or `Sym` (object arrays of Poly / BoolE / Cases).
 * all-concrete eqn           -> the REAL primitive is run (eqn.primitive.bind)
 * data movement on symbolic  -> the REAL primitive is run on an int32 array of element ids and
                                  the result indexes the pool of symbolic scalars
 * arithmetic on symbolic     -> exact rules over the symbolic scalar domain (sym.py); the native
                                  conv_general_dilated rule and the symbolic-index rule are
                                  cross-validated against the real primitive on every distinct use
 * anything else              -> Unsupported (=> the check ends inconclusive, never "pass")
"""
from __future__ import annotations

import itertools
import collections
from fractions import Fraction

import numpy as np
import jax
import jax.numpy as jnp
from jax.extend import core as jcore

from . import sym as S
from .sym import Sym, Poly, BoolE, Cases, is_sym


class Unsupported(Exception):
    pass


class RealCodeRaised(Exception):
    """The real ginjax code raised on an in-domain configuration, and did so again when the same
    entry point was called eagerly (un-traced) on seeded concrete data: a reproduced violation."""

    def __init__(self, exc, where):
        super().__init__(f"{type(exc).__name__}: {exc}")
        self.exc_type = type(exc).__name__
        self.where = where


TRACING = [0]  # depth of active traces of real code (an exception seen only while tracing is inconclusive)


def real_code_frame(exc):
    """'file:line in func' of the innermost ginjax frame of exc's traceback when that frame lies below
    every harness frame (i.e. the real code, not the harness, raised), else None."""
    import os
    import traceback
    try:
        import ginjax
        gdir = os.path.dirname(os.path.realpath(ginjax.__file__))
    except Exception:  # noqa: BLE001
        return None
    here = os.path.dirname(os.path.dirname(os.path.realpath(__file__)))
    found = None
    for fr in traceback.extract_tb(exc.__traceback__):
        fn = os.path.realpath(fr.filename)
        if fn.startswith(gdir + os.sep):
            found = f"{os.path.relpath(fn, gdir)}:{fr.lineno} in {fr.name}"
        elif fn.startswith(here + os.sep):
            found = None
    return found


def trace_real(wrapped, placeholders, tracer=None):
    """jax.make_jaxpr (or `tracer`) of real code.  If the real code raises, the same entry point is
    called eagerly on seeded concrete arrays; an exception of the same type from the real code there
    is a reproduced violation (RealCodeRaised).  Anything else propagates (inconclusive)."""
    TRACING[0] += 1
    try:
        if tracer is not None:
            return tracer(wrapped, placeholders)
        return jax.make_jaxpr(wrapped, return_shape=True)(*placeholders)
    except (Unsupported, RealCodeRaised):
        raise
    except Exception as e:  # noqa: BLE001
        where = real_code_frame(e)
        try:
            e._seen_while_tracing = True
        except Exception:  # noqa: BLE001
            pass
        if where is None:
            raise
        rng = np.random.default_rng(0)

        def conc(p):
            if hasattr(p, "dtype") and hasattr(p, "shape") and jnp.issubdtype(p.dtype, jnp.floating):
                return jnp.asarray(rng.normal(size=p.shape).astype(np.float32)).astype(p.dtype)
            return p
        try:
            TRACING[0] -= 1
            try:
                wrapped(*jax.tree_util.tree_map(conc, list(placeholders)))
            finally:
                TRACING[0] += 1
        except Exception as e2:  # noqa: BLE001
            if type(e2) is type(e) and real_code_frame(e2) is not None:
                raise RealCodeRaised(e2, real_code_frame(e2)) from e2
        raise
    finally:
        TRACING[0] -= 1


STATS = collections.Counter()
CUSTOM_RULES = {}  # primitive name -> fn(ins, params) -> list of outs
_XVAL_DONE = set()

CALL_PRIMS = {"jit", "pjit", "closed_call", "core_call", "custom_jvp_call", "custom_vjp_call",
              "custom_vjp_call_jaxpr", "remat", "checkpoint", "remat2", "custom_lin", "shard_map", "xla_pmap"}

# operand positions that are indices / predicates (must be concrete for the id trick)
MOVE_PRIMS = {
    "reshape": (), "transpose": (), "slice": (), "squeeze": (), "expand_dims": (), "concatenate": (),
    "pad": (), "broadcast_in_dim": (), "rev": (), "unstack": (), "split": (), "copy": (), "copy_p": (),
    "gather": (1,), "dynamic_slice": "rest1", "dynamic_update_slice": "rest2", "select_n": (0,),
    "scatter": (1,), "stack": (), "real": (), "reduce_precision": (), "optimization_barrier": (),
}


def _sub_jaxpr(params):
    for k in ("jaxpr", "call_jaxpr", "fun_jaxpr"):
        if k in params:
            j = params[k]
            if hasattr(j, "jaxpr"):
                return j.jaxpr, list(j.consts)
            return j, []
    raise Unsupported("call primitive without jaxpr param")


def lift(x, kind=None):
    return x if is_sym(x) else S.const_array(np.asarray(x), kind)


def _ew(f, *arrs):
    n = len(arrs)
    uf = np.frompyfunc(f, n, 1)
    r = uf(*arrs)
    if not isinstance(r, np.ndarray):
        rr = np.empty((), dtype=object)
        rr[()] = r
        r = rr
    return r


def _kind_of(ins):
    for a in ins:
        if is_sym(a):
            return a.kind
    return None


# ------------------------------------------------------------------ data movement via ids
def _move(eqn, ins):
    name = eqn.primitive.name
    spec = MOVE_PRIMS[name]
    if spec == "rest1":
        idx_pos = tuple(range(1, len(ins)))
    elif spec == "rest2":
        idx_pos = tuple(range(2, len(ins)))
    else:
        idx_pos = spec
    data_kinds = {a.kind for i, a in enumerate(ins) if is_sym(a) and i not in idx_pos}
    if len(data_kinds) != 1:
        raise Unsupported(f"{name}: mixed symbolic kinds {data_kinds}")
    kind = data_kinds.pop()
    for i in idx_pos:
        if is_sym(ins[i]):
            return _move_symidx(eqn, ins, idx_pos, kind)
    return _move_ids(eqn, ins, idx_pos, kind)


def _move_ids(eqn, ins, idx_pos, kind, override=None):
    pool = []
    idins = []
    dtype = None
    for i, a in enumerate(ins):
        if i in idx_pos:
            idins.append(override[i] if override and i in override else a)
            continue
        if not is_sym(a):
            a = S.const_array(np.asarray(a), kind)
        dtype = dtype or a.dtype
        ids = np.arange(len(pool), len(pool) + a.size, dtype=np.int32).reshape(a.shape)
        pool.extend(a.a.reshape(-1))
        idins.append(jnp.asarray(ids))
    r = eqn.primitive.bind(*idins, **eqn.params)
    outs_id = r if eqn.primitive.multiple_results else [r]
    outs = []
    for r in outs_id:
        r = np.asarray(r)
        o = np.empty(r.shape, dtype=object)
        of = o.reshape(-1)
        for k, i in enumerate(r.reshape(-1)):
            of[k] = pool[i]
        outs.append(Sym(o, kind, dtype))
    STATS["eqns_id_movement"] += 1
    return outs, pool, outs_id


def _move_symidx(eqn, ins, idx_pos, kind):
    """gather / dynamic_slice / ... with symbolic integer indices: the real primitive is run once per
    (symbolic index entry, case) on element ids; each output element becomes an ite-chain."""
    name = eqn.primitive.name
    if eqn.primitive.multiple_results:
        raise Unsupported(f"{name}: symbolic indices with multiple results")
    sym_pos = [i for i in idx_pos if is_sym(ins[i])]
    base = {}
    entries = []  # (operand pos, flat idx, Cases)
    for i in sym_pos:
        a = ins[i]
        if a.kind != "int":
            raise Unsupported(f"{name}: symbolic index of kind {a.kind}")
        b = np.empty(a.shape, dtype=np.int32)
        bf = b.reshape(-1)
        for j, c in enumerate(a.a.reshape(-1)):
            bf[j] = c.cases[0][1]
            if not c.is_const():
                entries.append((i, j, c))
        base[i] = b
    def run(over):
        o = {i: jnp.asarray(over[i]) for i in over}
        outs, pool, ids = _move_ids(eqn, ins, idx_pos, kind, override=o)
        return outs[0], np.asarray(ids[0])
    out0, ids0 = run(base)
    res = out0.a.copy()
    resf = res.reshape(-1)
    owner = np.full(ids0.size, -1, dtype=np.int64)
    for e, (i, j, c) in enumerate(entries):
        alts = []
        for cond, v in c.cases[1:]:
            ov = {k: b.copy() for k, b in base.items()}
            ov[i].reshape(-1)[j] = v
            o, ids = run(ov)
            alts.append((cond, o.a.reshape(-1), ids.reshape(-1)))
        changed = np.zeros(ids0.size, dtype=bool)
        for cond, of, idf in alts:
            changed |= idf != ids0.reshape(-1)
        for pos in np.nonzero(changed)[0]:
            if owner[pos] != -1:
                raise Unsupported(f"{name}: output element depends on two symbolic index entries")
            owner[pos] = e
            cur = out0.a.reshape(-1)[pos]
            if CANON_ARGMAX and kind == "real" and c.tags is not None:
                # order-independent selection atom (builds in the unique-maximiser precondition, see sym.maxsel)
                cands = [(c.tags[0], cur)] + [(c.tags[1 + q], of[pos]) for q, (cond, of, idf) in enumerate(alts)]
                resf[pos] = S.maxsel(cands)
                STATS["maxsel_atoms"] += 1
                continue
            # first case is the default; later cases override under their guard
            for cond, of, idf in alts:
                if kind == "real":
                    cur = S.ite(cond, of[pos], cur)
                elif kind == "int":
                    cur = S.select_cases(cond, of[pos], cur)
                else:
                    cur = S.bor(S.band(cond, of[pos]), S.band(S.bnot(cond), cur))
            resf[pos] = cur
    STATS["eqns_symbolic_index"] += 1
    return [Sym(res, kind, out0.dtype)]


# ------------------------------------------------------------------ arithmetic rules
def _binop_real(f):
    def rule(ins, params):
        a, b = (lift(x, "real") for x in ins)
        return [Sym(_ew(f, a.a, b.a), "real")]
    return rule


def _int_or_real(fint, freal):
    def rule(ins, params):
        k = _kind_of(ins)
        if k == "int":
            a, b = (lift(x, "int") for x in ins)
            return [Sym(_ew(lambda x, y: x.map2(y, fint), a.a, b.a), "int", a.dtype)]
        if k == "bool":
            raise Unsupported("arithmetic on bool")
        a, b = (lift(x, "real") for x in ins)
        return [Sym(_ew(freal, a.a, b.a), "real")]
    return rule


def _div_real(x, y):
    return x / y


def _cmp(fint, freal):
    def rule(ins, params):
        k = _kind_of(ins)
        if k == "int":
            a, b = (lift(x, "int") for x in ins)
            return [Sym(_ew(lambda x, y: x.pred2(y, fint), a.a, b.a), "bool")]
        if k == "bool":
            a, b = (lift(x, "bool") for x in ins)
            if fint(0, 0) and not fint(0, 1) and not fint(1, 0):  # eq
                f = lambda x, y: S.bor(S.band(x, y), S.band(S.bnot(x), S.bnot(y)))
            elif not fint(0, 0) and fint(0, 1) and fint(1, 0):  # ne
                f = lambda x, y: S.bor(S.band(x, S.bnot(y)), S.band(S.bnot(x), y))
            else:
                raise Unsupported("ordering comparison on bool")
            return [Sym(_ew(f, a.a, b.a), "bool")]
        a, b = (lift(x, "real") for x in ins)
        return [Sym(_ew(freal, a.a, b.a), "bool")]
    return rule


def _unary_real(f):
    def rule(ins, params):
        return [Sym(_ew(f, ins[0].a), "real")]
    return rule


def _unary_int_or_real(fint, freal):
    """elementwise unary op on a symbolic integer (case-wise, exact) or a symbolic real"""
    def rule(ins, params):
        x = ins[0]
        if x.kind == "int":
            return [Sym(_ew(lambda c: c.map(fint), x.a), "int", x.dtype)]
        return [Sym(_ew(freal, x.a), "real")]
    return rule


def _reduce_int_or_real(fint, freal_fold):
    real_rule = _reduce(freal_fold)

    def fold_int(xs):
        r = xs[0]
        for x in xs[1:]:
            r = r.map2(x, fint)
        return r
    int_rule = _reduce(fold_int)

    def rule(ins, params):
        return int_rule(ins, params) if ins[0].kind == "int" else real_rule(ins, params)
    return rule


def _uf1(name):
    return _unary_real(lambda x: Poly.const(0) if (name in ("tanh", "erf", "sin", "log1p", "expm1") and x.is_zero()) else S.uf(name, (x,)))


def _integer_pow(ins, params):
    y = params["y"]
    if y >= 0:
        return [Sym(_ew(lambda x: x ** y, ins[0].a), "real")]
    return [Sym(_ew(lambda x: S.recip(x ** (-y)), ins[0].a), "real")]


def _pow(ins, params):
    a, b = ins
    if is_sym(b):
        raise Unsupported("pow with symbolic exponent")
    b = np.asarray(b)
    a = lift(a, "real")
    def f(x, e):
        e = float(e)
        if e == int(e) and abs(e) < 16:
            return x ** int(e) if e >= 0 else S.recip(x ** int(-e))
        if e == 0.5:
            return S.sqrt(x)
        return S.uf(f"pow_{Fraction(e).numerator}_{Fraction(e).denominator}", (x,))
    return [Sym(_ew(f, a.a, np.broadcast_to(b, a.shape) if b.shape != a.shape else b), "real")]


def _select_n(ins, params):
    pred = ins[0]
    cases = ins[1:]
    if len(cases) != 2:
        raise Unsupported("select_n with != 2 cases and symbolic predicate")
    if pred.kind == "int":
        pred = Sym(_ew(lambda c: c.pred(lambda v: v != 0), pred.a), "bool")
    k = _kind_of(cases) or "real"
    if k is None or all(not is_sym(c) for c in cases):
        kk = np.asarray(cases[0]).dtype
        k = "bool" if kk == bool else ("int" if np.issubdtype(kk, np.integer) else "real")
    a, b = (lift(c, k) for c in cases)
    if k == "real":
        f = lambda p, x, y: S.ite(p, y, x)
    elif k == "int":
        f = lambda p, x, y: S.select_cases(p, y, x)
    else:
        f = lambda p, x, y: S.bor(S.band(p, y), S.band(S.bnot(p), x))
    return [Sym(_ew(f, pred.a, a.a, b.a), k, a.dtype)]


def _convert(ins, params):
    x = ins[0]
    nd = np.dtype(params["new_dtype"])
    if x.kind == "real":
        if np.issubdtype(nd, np.floating):
            return [x]
        raise Unsupported(f"convert real -> {nd}")
    if x.kind == "int":
        if np.issubdtype(nd, np.integer):
            return [Sym(x.a, "int", nd)]
        if np.issubdtype(nd, np.floating):
            return [Sym(_ew(lambda c: c.to_poly(), x.a), "real")]
        if nd == bool:
            return [Sym(_ew(lambda c: c.pred(lambda v: v != 0), x.a), "bool")]
    if x.kind == "bool":
        if nd == bool:
            return [x]
        if np.issubdtype(nd, np.floating):
            return [Sym(_ew(lambda b: S.ite(b, S.ONE, S.ZERO), x.a), "real")]
        if np.issubdtype(nd, np.integer):
            return [Sym(_ew(lambda b: Cases([(b, 1), (S.bnot(b), 0)]), x.a), "int", nd)]
    raise Unsupported(f"convert {x.kind} -> {nd}")


def _reduce(fold):
    def rule(ins, params):
        x = ins[0]
        axes = tuple(params["axes"])
        a = x.a
        if not axes:
            return [x]
        keep = [i for i in range(a.ndim) if i not in axes]
        at = np.transpose(a, keep + list(axes))
        kshape = at.shape[: len(keep)]
        nred = int(np.prod(at.shape[len(keep):], dtype=int))
        at = at.reshape(kshape + (nred,))
        out = np.empty(kshape, dtype=object)
        for ix in np.ndindex(*kshape):
            out[ix] = fold(list(at[ix]))
        return [Sym(out, x.kind, x.dtype)]
    return rule


def _sum_list(xs):
    t = {}
    for p in xs:
        for m, c in p.t.items():
            v = t.get(m)
            t[m] = c if v is None else v + c
    return Poly({m: S._norm(c) for m, c in t.items() if c})


def _fold(f):
    def g(xs):
        r = xs[0]
        for x in xs[1:]:
            r = f(r, x)
        return r
    return g


def _argmax_cases(vals, is_max=True):
    """First index attaining the extremum (jax semantics), as guarded cases."""
    n = len(vals)
    cases = []
    for j in range(n):
        conds = []
        for i in range(n):
            if i == j:
                continue
            if is_max:
                conds.append(S.lt(vals[i], vals[j]) if i < j else S.le(vals[i], vals[j]))
            else:
                conds.append(S.lt(vals[j], vals[i]) if i < j else S.le(vals[j], vals[i]))
        cases.append((S.band(*conds), j))
    return Cases(cases, tags=list(vals) if is_max else None)


def _argminmax(is_max):
    def rule(ins, params):
        x = ins[0]
        if x.kind != "real":
            raise Unsupported("argmax on non-real")
        (ax,) = params["axes"]
        a = np.moveaxis(x.a, ax, -1)
        out = np.empty(a.shape[:-1], dtype=object)
        for ix in np.ndindex(*a.shape[:-1]):
            out[ix] = _argmax_cases(list(a[ix]), is_max)
        return [Sym(out, "int", np.dtype(params["index_dtype"]))]
    return rule


def _dot_general(ins, params):
    (lc, rc), (lb, rb) = params["dimension_numbers"]
    a, b = ins
    a_conc = None if is_sym(a) else np.asarray(a)
    b_conc = None if is_sym(b) else np.asarray(b)
    a, b = lift(a, "real").a, lift(b, "real").a
    lc, rc, lb, rb = list(lc), list(rc), list(lb), list(rb)
    lfree = [i for i in range(a.ndim) if i not in lc and i not in lb]
    rfree = [i for i in range(b.ndim) if i not in rc and i not in rb]
    at = np.transpose(a, lb + lfree + lc)
    bt = np.transpose(b, rb + rfree + rc)
    bshape = at.shape[: len(lb)]
    lf = at.shape[len(lb): len(lb) + len(lfree)]
    rf = bt.shape[len(rb): len(rb) + len(rfree)]
    csh = at.shape[len(lb) + len(lfree):]
    nb = int(np.prod(bshape, dtype=int))
    nl = int(np.prod(lf, dtype=int))
    nr = int(np.prod(rf, dtype=int))
    nc = int(np.prod(csh, dtype=int))
    at = at.reshape(nb, nl, nc)
    bt = bt.reshape(nb, nr, nc)
    out = np.empty((nb, nl, nr), dtype=object)
    for ib in range(nb):
        for il in range(nl):
            row = at[ib, il]
            nzl = [k for k in range(nc) if row[k].t]
            for ir in range(nr):
                col = bt[ib, ir]
                acc = {}
                for k in nzl:
                    q = col[k]
                    if not q.t:
                        continue
                    pr = row[k] * q
                    for m, c in pr.t.items():
                        v = acc.get(m)
                        acc[m] = c if v is None else v + c
                out[ib, il, ir] = Poly({m: S._norm(c) for m, c in acc.items() if c})
    return [Sym(out.reshape(bshape + lf + rf), "real")]


def conv_native(lhs, rhs, p, mul=None):
    """Native conv_general_dilated over object arrays (strides, padding, lhs/rhs dilation, arbitrary
    dimension numbers, feature_group_count, batch_group_count)."""
    dn = p["dimension_numbers"]
    G = p["feature_group_count"]
    BG = p["batch_group_count"]
    lhs = np.transpose(lhs, dn.lhs_spec)  # N C spatial
    rhs = np.transpose(rhs, dn.rhs_spec)  # O I spatial
    N, C = lhs.shape[:2]
    O, I = rhs.shape[:2]
    nd = lhs.ndim - 2
    ld = tuple(p["lhs_dilation"] or (1,) * nd)
    rd = tuple(p["rhs_dilation"] or (1,) * nd)
    st = tuple(p["window_strides"])
    pad = tuple(tuple(q) for q in p["padding"])
    insp = lhs.shape[2:]
    ksp = rhs.shape[2:]
    dil = [(insp[d] - 1) * ld[d] + 1 if insp[d] > 0 else 0 for d in range(nd)]
    outsp = [max(0, (dil[d] + pad[d][0] + pad[d][1] - ((ksp[d] - 1) * rd[d] + 1)) // st[d] + 1) for d in range(nd)]
    Nout = N // BG
    out = np.empty((Nout, O) + tuple(outsp), dtype=object)
    Cg = C // G
    Og = O // G
    Obg = O // BG
    assert I == Cg, (I, Cg)
    kpos = list(itertools.product(*[range(s) for s in ksp]))
    for op in itertools.product(*[range(s) for s in outsp]):
        taps = []
        for kp in kpos:
            pos = []
            ok = True
            for d in range(nd):
                q = op[d] * st[d] + kp[d] * rd[d] - pad[d][0]
                if q < 0 or q >= dil[d] or q % ld[d]:
                    ok = False
                    break
                pos.append(q // ld[d])
            if ok:
                taps.append((tuple(pos), kp))
        for n in range(Nout):
            for o in range(O):
                g = o // Og
                bg = o // Obg
                acc = {}
                for pos, kp in taps:
                    for i in range(I):
                        x = lhs[(bg * Nout + n, g * Cg + i) + pos]
                        if not x.t:
                            continue
                        w = rhs[(o, i) + kp]
                        if not w.t:
                            continue
                        pr = x * w
                        for m, c in pr.t.items():
                            v = acc.get(m)
                            acc[m] = c if v is None else v + c
                out[(n, o) + op] = Poly({m: S._norm(c) for m, c in acc.items() if c})
    inv = np.argsort(dn.out_spec)
    return np.transpose(out, inv)


def _conv_rule(eqn, ins):
    p = eqn.params
    lhs, rhs = ins
    sig = ("conv", tuple(np.shape(lhs.a if is_sym(lhs) else lhs)), tuple(np.shape(rhs.a if is_sym(rhs) else rhs)),
           repr({k: p[k] for k in ("dimension_numbers", "feature_group_count", "batch_group_count", "lhs_dilation",
                                   "rhs_dilation", "window_strides", "padding")}))
    if sig not in _XVAL_DONE:
        rng = np.random.RandomState(len(_XVAL_DONE) + 7)
        la = rng.randint(-3, 4, size=sig[1]).astype(np.float32)
        ra = rng.randint(-3, 4, size=sig[2]).astype(np.float32)
        real = np.asarray(eqn.primitive.bind(jnp.asarray(la), jnp.asarray(ra), **p))
        mine = conv_native(S.const_array(la).a, S.const_array(ra).a, p)
        got = np.array([float(Fraction(q.const_value())) for q in mine.reshape(-1)]).reshape(mine.shape)
        if got.shape != real.shape or not np.array_equal(got, real):
            raise Unsupported(f"native conv rule disagrees with the real primitive for {sig}")
        _XVAL_DONE.add(sig)
        STATS["native_rule_crossvalidations"] += 1
    out = conv_native(lift(lhs, "real").a, lift(rhs, "real").a, p)
    return [Sym(out, "real")]


def _clamp(ins, params):
    lo, x, hi = ins
    k = _kind_of(ins)
    if k == "int":
        lo, x, hi = (lift(v, "int") for v in (lo, x, hi))
        f = lambda l, v, h: v.map2(l, max).map2(h, min)
        return [Sym(_ew(f, lo.a, x.a, hi.a), "int", x.dtype)]
    lo, x, hi = (lift(v, "real") for v in (lo, x, hi))
    return [Sym(_ew(lambda l, v, h: S.pmin(S.pmax(v, l), h), lo.a, x.a, hi.a), "real")]


def _bool2(f):
    def rule(ins, params):
        k = _kind_of(ins)
        if k != "bool":
            raise Unsupported("bitwise op on non-bool symbolic")
        a, b = (lift(x, "bool") for x in ins)
        return [Sym(_ew(f, a.a, b.a), "bool")]
    return rule


def _pyrem(a, b):
    # lax.rem: sign follows the dividend (C semantics)
    r = abs(a) % abs(b)
    return r if a >= 0 else -r


def _pydiv(a, b):
    q = abs(a) // abs(b)
    return q if (a >= 0) == (b >= 0) else -q


ARITH = {
    "add": _int_or_real(lambda a, b: a + b, lambda a, b: a + b),
    "add_any": _int_or_real(lambda a, b: a + b, lambda a, b: a + b),
    "sub": _int_or_real(lambda a, b: a - b, lambda a, b: a - b),
    "mul": _int_or_real(lambda a, b: a * b, lambda a, b: a * b),
    "div": _int_or_real(_pydiv, _div_real),
    "rem": _int_or_real(_pyrem, lambda a, b: S.uf("rem", (a, b))),
    "max": _int_or_real(max, S.pmax),
    "min": _int_or_real(min, S.pmin),
    "neg": lambda ins, params: [Sym(_ew(lambda x: -x, ins[0].a), "real")] if ins[0].kind == "real"
    else [Sym(_ew(lambda c: c.map(lambda v: -v), ins[0].a), "int", ins[0].dtype)],
    "integer_pow": _integer_pow,
    "square": _unary_int_or_real(lambda v: v * v, lambda x: x * x),
    "sqrt": _unary_real(S.sqrt),
    "rsqrt": _unary_real(lambda x: S.recip(S.sqrt(x))),
    "abs": _unary_int_or_real(abs, S.pabs),
    "sign": _unary_int_or_real(lambda v: (v > 0) - (v < 0), S.psign),
    "pow": _pow,
    "tanh": _uf1("tanh"), "exp": _uf1("exp"), "log": _uf1("log"), "logistic": _uf1("logistic"),
    "erf": _uf1("erf"), "sin": _uf1("sin"), "cos": _uf1("cos"), "log1p": _uf1("log1p"),
    "expm1": _uf1("expm1"), "erf_inv": _uf1("erf_inv"), "exp2": _uf1("exp2"),
    "lt": _cmp(lambda a, b: a < b, S.lt),
    "le": _cmp(lambda a, b: a <= b, S.le),
    "gt": _cmp(lambda a, b: a > b, lambda a, b: S.lt(b, a)),
    "ge": _cmp(lambda a, b: a >= b, lambda a, b: S.le(b, a)),
    "eq": _cmp(lambda a, b: a == b, S.eq),
    "ne": _cmp(lambda a, b: a != b, lambda a, b: S.bnot(S.eq(a, b))),
    "and": _bool2(S.band), "or": _bool2(S.bor),
    "not": lambda ins, params: [Sym(_ew(S.bnot, ins[0].a), "bool")],
    "select_n": _select_n,
    "convert_element_type": _convert,
    "reduce_sum": _reduce_int_or_real(lambda a, b: a + b, _sum_list),
    "reduce_max": _reduce_int_or_real(max, _fold(S.pmax)),
    "reduce_min": _reduce_int_or_real(min, _fold(S.pmin)),
    "reduce_prod": _reduce_int_or_real(lambda a, b: a * b, _fold(lambda a, b: a * b)),
    "reduce_and": _reduce(lambda xs: S.band(*xs)),
    "reduce_or": _reduce(lambda xs: S.bor(*xs)),
    "argmax": _argminmax(True),
    "argmin": _argminmax(False),
    "dot_general": _dot_general,
    "clamp": _clamp,
    "stop_gradient": lambda ins, params: [ins[0]],
}


def _cumsum(ins, params):
    x = ins[0]
    ax = params["axis"]
    rev = params.get("reverse", False)
    a = np.moveaxis(x.a, ax, -1)
    out = np.empty(a.shape, dtype=object)
    for ix in np.ndindex(*a.shape[:-1]):
        row = list(a[ix])
        if rev:
            row = row[::-1]
        acc = S.ZERO
        res = []
        for v in row:
            acc = acc + v
            res.append(acc)
        if rev:
            res = res[::-1]
        for j, v in enumerate(res):
            out[ix + (j,)] = v
    return [Sym(np.moveaxis(out, -1, ax), "real")]


ARITH["cumsum"] = _cumsum


def _cum(fold):
    def rule(ins, params):
        x = ins[0]
        ax = params["axis"]
        rev = params.get("reverse", False)
        a = np.moveaxis(x.a, ax, -1)
        out = np.empty(a.shape, dtype=object)
        for ix in np.ndindex(*a.shape[:-1]):
            row = list(a[ix])
            if rev:
                row = row[::-1]
            res, acc = [], None
            for v in row:
                acc = v if acc is None else fold(acc, v)
                res.append(acc)
            if rev:
                res = res[::-1]
            for j, v in enumerate(res):
                out[ix + (j,)] = v
        return [Sym(np.moveaxis(out, -1, ax), "real")]
    return rule


ARITH["cumprod"] = _cum(lambda a, b: a * b)
ARITH["cummax"] = _cum(S.pmax)
ARITH["cummin"] = _cum(S.pmin)
for _n in ("floor", "ceil", "round", "erfc", "sinh", "cosh", "tan", "atan", "asin", "acos", "asinh", "acosh", "atanh", "cbrt", "lgamma", "digamma"):
    ARITH[_n] = _uf1(_n)


def _reduce_window(fold, identity):
    """lax.reduce_window_{sum,max,min}: explicit windows over the padded / dilated operand (padding with the
    identity of the reduction, exactly as XLA specifies)."""
    def rule(ins, params):
        x = ins[0]
        if x.kind != "real":
            raise Unsupported("reduce_window on a non-real symbolic operand")
        a = x.a
        nd = a.ndim
        wd = tuple(params["window_dimensions"])
        ws = tuple(params["window_strides"])
        pad = tuple(tuple(q) for q in params["padding"])
        bd = tuple(params.get("base_dilation") or (1,) * nd)
        wdil = tuple(params.get("window_dilation") or (1,) * nd)
        # base dilation, then padding
        shp = tuple((n - 1) * b + 1 if n > 0 else 0 for n, b in zip(a.shape, bd))
        d = np.empty(shp, dtype=object)
        d.reshape(-1)[:] = [identity] * d.size
        d[tuple(slice(0, None, b) for b in bd)] = a
        pshape = tuple(n + lo + hi for n, (lo, hi) in zip(shp, pad))
        if any(lo < 0 or hi < 0 for lo, hi in pad):
            raise Unsupported("reduce_window with negative padding")
        pa = np.empty(pshape, dtype=object)
        pa.reshape(-1)[:] = [identity] * pa.size
        pa[tuple(slice(lo, lo + n) for n, (lo, hi) in zip(shp, pad))] = d
        eff = tuple((w - 1) * dl + 1 for w, dl in zip(wd, wdil))
        oshape = tuple(max(0, (n - e) // st + 1) for n, e, st in zip(pshape, eff, ws))
        out = np.empty(oshape, dtype=object)
        offs = list(itertools.product(*[range(w) for w in wd]))
        for ix in np.ndindex(*oshape):
            vals = [pa[tuple(i * st + o * dl for i, st, o, dl in zip(ix, ws, off, wdil))] for off in offs]
            vals = [v for v in vals if v is not identity]
            if not vals:
                if identity is _PAD:
                    raise Unsupported("reduce_window max/min over a window that is padding only")
                vals = [identity]
            out[ix] = fold(vals)
        return [Sym(out, "real", x.dtype)]
    return rule


_PAD = object()  # padding of max/min windows (-inf/+inf): dropped from the window
ARITH["reduce_window_sum"] = _reduce_window(_sum_list, S.ZERO)
ARITH["reduce_window_max"] = _reduce_window(_fold(S.pmax), _PAD)
ARITH["reduce_window_min"] = _reduce_window(_fold(S.pmin), _PAD)


def _scatter_add(eqn, ins):
    """scatter-add with concrete indices: out = operand + M . updates, the 0/1(count) matrix M read off the REAL primitive
    applied to one-hot updates."""
    operand, idx, upd = ins
    if is_sym(idx):
        raise Unsupported("scatter-add with symbolic indices")
    op = lift(operand, "real")
    up = lift(upd, "real")
    n = int(np.prod(up.shape, dtype=int))
    eye = jnp.eye(n, dtype=jnp.float32).reshape((n,) + tuple(up.shape))
    zeros = jnp.zeros(op.shape, jnp.float32)
    M = np.asarray(jax.vmap(lambda u: eqn.primitive.bind(zeros, idx, u, **eqn.params))(eye))  # (n,) + operand.shape
    out = op.a.copy()
    uf = up.a.reshape(-1)
    for j in range(n):
        for pos in zip(*np.nonzero(M[j])):
            out[pos] = out[pos] + uf[j] * Fraction(int(round(float(M[j][pos]))))
    return [Sym(out, "real", op.dtype)]


def _scan(eqn, ins):
    """lax.scan with a static trip count: unrolled."""
    pr = eqn.params
    closed = pr["jaxpr"]
    body, bconsts = closed.jaxpr, list(closed.consts)
    length, rev = pr["length"], pr.get("reverse", False)
    if "num_consts" in pr:
        nc, ncar = pr["num_consts"], pr["num_carry"]
    else:  # newer jax: flat-tree description of (consts, carry, xs), as jax's own _scan_impl reads it
        try:
            parts = [list(q) for q in pr["ft_in"].update(list(range(len(ins)))).unpack()]
            nc, ncar = len(parts[0]), len(parts[1])
            assert parts[0] + parts[1] + parts[2] == list(range(len(ins)))
            oparts = [list(q) for q in pr["ft_out"].update(list(range(len(body.outvars)))).unpack()]
            assert oparts[0] == list(range(ncar)) and oparts[0] + oparts[1] == list(range(len(body.outvars)))
        except Exception as e:  # noqa: BLE001
            raise Unsupported(f"scan: cannot read the operand split ({e!r})")
    consts, carry, xs = list(ins[:nc]), list(ins[nc:nc + ncar]), list(ins[nc + ncar:])
    ys = None
    order = range(length - 1, -1, -1) if rev else range(length)
    per_step = {}
    for i in order:
        xi = [Sym(x.a[i], x.kind, x.dtype) if is_sym(x) else x[i] for x in xs]
        outs = run_jaxpr(body, bconsts, consts + carry + xi)
        carry = outs[:ncar]
        per_step[i] = outs[ncar:]
    n_y = len(body.outvars) - ncar
    ys = []
    for j in range(n_y):
        col = [per_step[i][j] for i in range(length)]
        if any(is_sym(c) for c in col):
            kind = next(c.kind for c in col if is_sym(c))
            col = [lift(c, kind) for c in col]
            ys.append(Sym(np.stack([c.a for c in col], axis=0) if length else np.empty((0,) + tuple(body.outvars[ncar + j].aval.shape), dtype=object),
                          kind, col[0].dtype if col else None))
        else:
            ys.append(jnp.stack(col, axis=0) if length else jnp.zeros((0,) + tuple(body.outvars[ncar + j].aval.shape), body.outvars[ncar + j].aval.dtype))
    return carry + ys


def _while(eqn, ins):
    """lax.while_loop / fori_loop whose condition stays concrete: iterated for real (bounded)."""
    pr = eqn.params
    cj, bj = pr["cond_jaxpr"], pr["body_jaxpr"]
    cn, bn = pr["cond_nconsts"], pr["body_nconsts"]
    cconsts, bconsts, carry = list(ins[:cn]), list(ins[cn:cn + bn]), list(ins[cn + bn:])
    for _ in range(10000):
        c = run_jaxpr(cj.jaxpr, list(cj.consts), cconsts + carry)[0]
        if is_sym(c):
            raise Unsupported("while_loop whose condition depends on symbolic values")
        if not bool(np.asarray(c)):
            return carry
        carry = run_jaxpr(bj.jaxpr, list(bj.consts), bconsts + carry)
    raise Unsupported("while_loop did not terminate within 10000 iterations")


def _cond(eqn, ins):
    """lax.cond / switch: concrete index -> that branch; symbolic Boolean predicate -> both branches merged with ite."""
    branches = eqn.params["branches"]
    idx, ops = ins[0], list(ins[1:])
    if not is_sym(idx):
        b = branches[int(np.clip(int(np.asarray(idx)), 0, len(branches) - 1))]
        return run_jaxpr(b.jaxpr, list(b.consts), ops)
    if len(branches) != 2:
        raise Unsupported("switch with a symbolic index and more than two branches")
    o0 = run_jaxpr(branches[0].jaxpr, list(branches[0].consts), ops)
    o1 = run_jaxpr(branches[1].jaxpr, list(branches[1].consts), ops)
    return [_select_n([idx, a, b], {})[0] for a, b in zip(o0, o1)]


# canonical (order-independent) argmax selection, only for network-level obligations that ASSUME the max-pool precondition
CANON_ARGMAX = False

# let-abstraction threshold (number of polynomial terms); None = always expand (exact normal form)
DEF_THRESHOLD = None


def _define_all(o):
    thr = DEF_THRESHOLD
    flat = o.a.reshape(-1)
    if all(len(q.t) <= thr for q in flat):
        return o
    out = np.empty(o.a.shape, dtype=object)
    of = out.reshape(-1)
    for i, q in enumerate(flat):
        of[i] = S.define(q, thr)
    return Sym(out, "real", o.dtype)


# ------------------------------------------------------------------ driver
def run_jaxpr(jaxpr, consts, args):
    env = {}

    def read(v):
        return v.val if isinstance(v, jcore.Literal) else env[v]

    for v, c in zip(jaxpr.constvars, consts):
        env[v] = c
    assert len(jaxpr.invars) == len(args), (len(jaxpr.invars), len(args))
    for v, a in zip(jaxpr.invars, args):
        env[v] = a
    for eqn in jaxpr.eqns:
        ins = [read(v) for v in eqn.invars]
        name = eqn.primitive.name
        anysym = any(is_sym(a) for a in ins)
        if name in CUSTOM_RULES:
            outs = CUSTOM_RULES[name](ins, eqn.params)
            STATS["eqns_stub"] += 1
        elif name in CALL_PRIMS:
            sub, sconsts = _sub_jaxpr(eqn.params)
            if name == "shard_map":
                mesh = eqn.params.get("mesh")
                if mesh is not None and getattr(mesh, "size", 1) != 1:
                    raise Unsupported("shard_map over more than one device")
            nconst = len(sub.invars) - len(ins)
            if nconst < 0:
                raise Unsupported(f"{name}: arity mismatch")
            outs = run_jaxpr(sub, sconsts, list(ins))
            STATS["eqns_call"] += 1
        elif not anysym:
            r = eqn.primitive.bind(*ins, **eqn.params)
            outs = list(r) if eqn.primitive.multiple_results else [r]
            STATS["eqns_concrete_real_primitive"] += 1
        elif name in MOVE_PRIMS and not (name == "select_n" and is_sym(ins[0])):
            if name == "select_n" and not is_sym(ins[0]) and False:
                pass
            r = _move(eqn, ins)
            outs = r[0] if isinstance(r, tuple) else r
        elif name == "conv_general_dilated":
            outs = _conv_rule(eqn, ins)
            STATS["eqns_native_arith"] += 1
        elif name == "scan":
            outs = _scan(eqn, ins)
            STATS["eqns_call"] += 1
        elif name == "while":
            outs = _while(eqn, ins)
            STATS["eqns_call"] += 1
        elif name == "cond":
            outs = _cond(eqn, ins)
            STATS["eqns_call"] += 1
        elif name in ("scatter-add", "scatter_add"):
            outs = _scatter_add(eqn, ins)
            STATS["eqns_native_arith"] += 1
        elif name in ARITH:
            f = ARITH[name]
            if f is None:
                raise Unsupported(name)
            outs = f(ins, eqn.params)
            STATS["eqns_native_arith"] += 1
        elif name in ("psum", "pmean", "pmax", "pmin", "all_gather") :
            raise Unsupported(f"collective {name} on symbolic operand")
        else:
            raise Unsupported(f"primitive {name} on symbolic operand")
        if DEF_THRESHOLD is not None and anysym and name not in MOVE_PRIMS and name not in CALL_PRIMS:
            outs = [_define_all(o) if (is_sym(o) and o.kind == "real") else o for o in outs]
        if len(outs) != len(eqn.outvars):
            raise Unsupported(f"{name}: produced {len(outs)} outputs, expected {len(eqn.outvars)}")
        for v, o in zip(eqn.outvars, outs):
            if is_sym(o) and tuple(o.shape) != tuple(v.aval.shape):
                raise Unsupported(f"{name}: shape {o.shape} vs aval {v.aval.shape}")
            env[v] = o
    return [read(v) for v in jaxpr.outvars]


def count_eqns(jaxpr):
    n = 0
    for e in jaxpr.eqns:
        n += 1
        if e.primitive.name in CALL_PRIMS:
            try:
                sub, _ = _sub_jaxpr(e.params)
                n += count_eqns(sub)
            except Unsupported:
                pass
    return n


def prims_of(jaxpr, acc=None):
    acc = acc if acc is not None else set()
    for e in jaxpr.eqns:
        acc.add(e.primitive.name)
        if e.primitive.name in CALL_PRIMS:
            try:
                sub, _ = _sub_jaxpr(e.params)
                prims_of(sub, acc)
            except Unsupported:
                pass
    return acc


def _placeholder(x):
    if is_sym(x):
        return jnp.zeros(x.shape, x.dtype)
    return x


def sym_call(fn, *args, static_out=None):
    """Trace `fn` (real code) on placeholders for the symbolic leaves of `args`, execute the jaxpr
    symbolically, and return the output pytree with Sym / concrete leaves.

    args is an arbitrary pytree whose array leaves may be `Sym`.  Non-array leaves are closed over.
    """
    leaves, treedef = jax.tree_util.tree_flatten(args, is_leaf=is_sym)
    dyn_idx = [i for i, l in enumerate(leaves) if is_sym(l) or isinstance(l, (jax.Array, np.ndarray))]
    dyn_vals = [leaves[i] for i in dyn_idx]

    def wrapped(*dyn):
        ls = list(leaves)
        for i, d in zip(dyn_idx, dyn):
            ls[i] = d
        a = jax.tree_util.tree_unflatten(treedef, ls)
        return fn(*a)

    placeholders = [_placeholder(v) for v in dyn_vals]
    cj, out_shape = trace_real(wrapped, placeholders)
    STATS["jaxprs_traced"] += 1
    STATS["jaxpr_eqns_total"] += count_eqns(cj.jaxpr)
    outs = run_jaxpr(cj.jaxpr, list(cj.consts), dyn_vals)
    out_leaves, out_tree = jax.tree_util.tree_flatten(out_shape)
    assert len(out_leaves) == len(outs)
    return _unflatten_loose(out_tree, outs)


def _unflatten_loose(treedef, leaves):
    """tree_unflatten that tolerates Sym leaves inside custom pytree nodes (MultiImage etc.) by
    rebuilding through python containers only: custom nodes are rebuilt with their own unflatten,
    which for ginjax classes just stores what it is given."""
    try:
        return jax.tree_util.tree_unflatten(treedef, leaves)
    except Exception:
        # fall back to a plain nested structure
        return jax.tree_util.tree_unflatten(
            jax.tree_util.tree_structure(list(range(len(leaves)))), leaves)


class Traced:
    """Trace `fn` once on placeholders shaped like `args`; call repeatedly with other (symbolic or
    concrete) arguments of the same shapes.  Only valid when fn itself does not depend on what varies."""

    def __init__(self, fn, *args):
        leaves, self.treedef = jax.tree_util.tree_flatten(args, is_leaf=is_sym)
        self.dyn_idx = [i for i, l in enumerate(leaves) if is_sym(l) or isinstance(l, (jax.Array, np.ndarray))]
        self.static = list(leaves)
        dyn_vals = [leaves[i] for i in self.dyn_idx]

        def wrapped(*dyn):
            ls = list(self.static)
            for i, d in zip(self.dyn_idx, dyn):
                ls[i] = d
            return fn(*jax.tree_util.tree_unflatten(self.treedef, ls))

        self.cj, self.out_shape = trace_real(wrapped, [_placeholder(v) for v in dyn_vals])
        self.shapes = [tuple(np.shape(v.a if is_sym(v) else v)) for v in dyn_vals]
        STATS["jaxprs_traced"] += 1
        STATS["jaxpr_eqns_total"] += count_eqns(self.cj.jaxpr)
        self.out_tree = jax.tree_util.tree_structure(self.out_shape)

    def __call__(self, *args):
        leaves, treedef = jax.tree_util.tree_flatten(args, is_leaf=is_sym)
        dyn_vals = [leaves[i] for i in self.dyn_idx]
        for v, s in zip(dyn_vals, self.shapes):
            if tuple(np.shape(v.a if is_sym(v) else v)) != s:
                raise Unsupported("Traced: argument shape differs from the traced one")
        outs = run_jaxpr(self.cj.jaxpr, list(self.cj.consts), dyn_vals)
        return _unflatten_loose(self.out_tree, outs)
