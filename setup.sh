#!/bin/bash
# Build the overlay virtualenv the checks run in (offline, from files on disk only).
#   /verif/.venv = venv of /venv/bin/python whose .pth adds /venv's site-packages (jax, equinox,
#   optax, the editable install of /repo) plus z3-solver, cvc5, crosshair-tool from the wheelhouse.
# Idempotent and safe to call concurrently (flock).
set -euo pipefail
HERE="$(cd "$(dirname "${BASH_SOURCE[0]}")" && pwd)"
VENV="$HERE/.venv"
STAMP="$VENV/.ok"
exec 9>"$HERE/.venv.lock"
flock 9
if [ -f "$STAMP" ] && "$VENV/bin/python" -c "import z3, jax" >/dev/null 2>&1; then
  exit 0
fi
rm -rf "$VENV"
/venv/bin/python -m venv "$VENV"
SP="$VENV/lib/python3.12/site-packages"
echo "import site; site.addsitedir('/venv/lib/python3.12/site-packages')" > "$SP/_overlay.pth"
PIP_NO_INDEX=1 "$VENV/bin/pip" install --quiet --no-index --find-links /opt/veriftools/wheels \
  z3-solver cvc5 crosshair-tool >/dev/null 2>&1 || \
PIP_NO_INDEX=1 "$VENV/bin/pip" install --no-index --find-links /opt/veriftools/wheels z3-solver cvc5 crosshair-tool
"$VENV/bin/python" -c "import z3, jax, equinox, crosshair; import ginjax.geometric" >/dev/null
touch "$STAMP"
