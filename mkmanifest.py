#!/usr/bin/env python3
"""Regenerates MANIFEST.json from the table below (keeps it valid at all times)."""
import json
import os

HERE = os.path.dirname(os.path.abspath(__file__))

JX = "JXSMT"
XH = "CrossHair"

# id -> (engine, technique, level text, level note, design ref)
CLAIMED = {
    "C01": (JX, "symbolic execution of the jaxpr of geom.convolve / convolve_with, z3 (QF_NRA) per configuration",
            "For each enumerated configuration (dimension, shape, tensor orders, filter shape, boundary mode, dilations) z3 proves "
            "(g.A)*(g.C) = g.(A*C) and shift-commutation for ALL real images and filters; configurations are bounded and listed in evidence.",
            "Reals not float32; bounded shapes (<=5 in d=2, <=4 in d=3) and tensor orders; stride 1; trusted: jax tracer, real primitives for "
            "concrete/id evaluation, z3, the cross-validated native conv rule.", "4/C01"),
    "C02": (JX, "symbolic execution of the jaxprs of the three times_group_element entry points, z3 (QF_LRA/QF_NRA) per configuration",
            "For each enumerated (d, shape, k, p) and every group element (pairs for the homomorphism) z3 proves the action equals the "
            "defining formula, composes, preserves pixel norms, for ALL real images; metadata read off the traced objects.",
            "Reals; bounded shapes/orders (k<=3); d=3 homomorphism on generator pairs in the quick tier; trusted as C01.  Storage types other than float32 "
            "(half, complex, integer data) are outside the solver claim: the check only records concrete facts (exact values of the action on exactly representable data).", "4/C02"),
    "C03": (JX, "real generation of the filter families + z3 (QF_LRA) over symbolic weights / a symbolic generic filter; Burnside count in exact integers",
            "For each enumerated (G, d, M, k, p) z3 proves invariance for ALL weights, linear independence, and completeness (no invariant filter "
            "outside the span); the family size equals the Burnside dimension.",
            "Filter entries at the exact rational value of the produced float32; bounded (M<=5, k<=4 in d=2; M<=3..5, k<=3 in d=3); groups: B_d, rotations, C2^d, C4, trivial.", "4/C03"),
    "C04": (JX, "symbolic execution of the jaxprs of geom.convolve / convolve_contract / convolve_with vs. a reference direct sum, z3 (QF_NRA) per option cell",
            "For each enumerated option cell z3 proves that every output entry equals the defining direct sum for ALL real image batches and "
            "filter banks; output shape and bilinearity are read off the symbolic result.",
            "Reals; option cells sampled (pairwise-covering core + seeded sample), shapes <=5 (d=2), <=4 (d=3); wrap-around only in TORUS mode as documented.", "4/C04"),
    "C05": (JX, "typed enumeration of expression trees over the real GeometricImage methods; symbolic execution of each tree's jaxpr; z3 (QF_NRA) per tree and group element",
            "For each enumerated well-typed expression tree (depth<=2, seeded depth 3) and each g, z3 proves E(g.leaves) = g.E(leaves) with the "
            "DECLARED (k,parity) for ALL real leaf values; plus contraction-order and product-commutativity identities.",
            "Reals; tiny images (2x2, 3x3, 2x2x2) - the operations are pixel-local except convolve_with (3x3 filters); trees sampled in the quick tier; "
            "a table of the declared (k, parity, D, is_torus) of every GeometricImage operation is read off the real objects (discrete facts, no solver).", "4/C05"),
    "C06": (JX, "symbolic execution of the jaxpr of the real ConvContract.__call__ with symbolic weights, biases and inputs; z3 (QF_NRA) per cell and group element",
            "For each enumerated layer configuration z3 proves layer(g.x) = g.layer(x) for ALL real weights, biases and inputs and every g of the "
            "bank's group (and unit shifts on toroidal inputs), each output block with its declared type.",
            "Reals; bounded signatures (k<=2, channels<=2), N<=5; configurations sampled (pairwise core + seeded); filter bank concrete (C03).", "4/C06"),
    "C11": (JX, "symbolic execution of the jaxpr of the real ConvContract.__call__ vs. an independent reference evaluation; z3 (QF_NRA); structural contract read off the traced output",
            "For each enumerated layer configuration (all five bias settings, stride 1/2) z3 proves every output block equals the defining sum plus "
            "the stated bias rule for ALL real weights, biases, inputs; output keys/channels/shape equal the reachable requested targets.",
            "Reals; same bounds as C06; reference convolution shared with C04.", "4/C11"),
    "C12": (JX, "enumerated construction histories executed inside the traced function; symbolic execution of the real MultiImage operators; z3 (QF_LRA/NRA); __eq__ by scripted-allclose path exploration + z3 propositional equivalence",
            "For each enumerated pair of construction histories and insertion orders z3 proves (a op b)[t] = a[t] op b[t] for ALL block values and scalars; "
            "every ordered pair of distinct type sets over a 3-type universe is rejected by + and - and unequal under ==; __eq__'s truth table over all allclose outcomes equals the type-wise conjunction.",
            "Reals; tiny blocks (N=2); histories of length <=2 sampled; allclose itself is stubbed for __eq__.", "4/C12"),
    "C13": (JX, "symbolic execution of the real re-layout methods composed into round trips; z3 (QF_LRA) identity per block; metadata read off the traced objects; "
            "(ml.save/ml.load only: concrete bit-pattern round trips through the real file I/O, recorded as structural facts, not solver-decided)",
            "For each enumerated signature/order/leading-axis layout and every applicable inverse pair (and seeded chains of <=3) z3 proves "
            "roundtrip(x) = x for ALL entries; to_scalar_multi_image equals its documented channel layout.",
            "save/load (file I/O) cannot be encoded: that sentence is NOT solver-decided, the check only records concrete facts for it (every array leaf filled with distinct "
            "float32 bit patterns incl. -0.0/denormal/inf/NaN payload and every python-scalar leaf come back identical, outputs bit-identical; 4-7 models); bounded signatures (k<=3, channels<=4), 0-3 leading axes, d<=3.", "4/C13"),
    "C14": (JX, "symbolic execution of the batched MultiImage methods / jax.vmap(layer) vs. the single-image method / un-batched layer executed separately; z3 per entry",
            "For each enumerated leading-axis layout z3 proves op(X)[b,c] = single_image_op(X[b,c]) for ALL entries, and vmap(layer)(X)[b] = layer(X[b]) "
            "plus direct independence from the other batch entries, for ConvContract, VN nonlinearity, MaxNormPool, scalar GroupNorm, ConvBlock, a tiny ResNet; "
            "per-entry losses equal the loss of the entry alone and the reduced losses their mean (all three losses).",
            "Reals; fixed seeded layer parameters; bounded shapes; large intermediate polynomials are let-abstracted (def atoms, refined on demand).", "4/C14"),
    "C15": (JX + "+" + XH, "CrossHair on the real time_series_idxs (symbolic T,p,f,dt; recorded fallback: exhaustive enumeration of the same bounded domain); symbolic execution of the jaxprs of times_series_to_multi_images / batch_time_series, z3 (QF_LRA) per configuration",
            "CrossHair confirms the index arithmetic over all paths for symbolic (T,p,f,dt) within bounds; for each enumerated (T,p,f,dt,s,downsample, "
            "constants, trajectories) z3 proves every input/target block equals the specified gather for ALL field values.",
            "CrossHair: jnp/np of ginjax.data replaced by a lazy integer-array shim (validated against the real function on every run); p,f<=6, dt<=4, T<=48; if the shim "
            "does not fit the current source or CrossHair is inconclusive, the same bounded domain is decided by exhaustive enumeration of the real function and the "
            "evidence notes say so.  JXSMT part: T<=8 (12), sampled cells.", "4/C15"),
    "C16": (JX, "symbolic execution of the jaxprs of autoregressive_step / autoregressive_map with the model as an uninterpreted function; z3 (QF_UFLRA)",
            "For each enumerated (signature, n, past) z3 proves the rollout equals n explicit applications with the sliding-window update for EVERY model "
            "(uninterpreted function of the whole input) and all inputs.",
            "n<=3 (6), past<=3 (5); the model reads its input by type (canonical order) and its function symbol depends on the image's D and boundary flags; replay uses "
            "a fixed generic nonlinear model.  Storage-type promotion of the fed-back prediction (int / half windows) is outside the solver claim: concrete facts only.", "4/C16"),
    "C17": (JX, "symbolic execution of the jaxpr of get_batches with a symbolic permutation (boolean permutation-matrix variables); z3 per (L,B,devices)",
            "For each enumerated (L, B, device count, number of co-batched multi-images) z3 proves for EVERY permutation that slot (i,r) of every multi-image "
            "and type holds sample pi(iB+r), floor(L/B) batches, device axis = reshape; identity order without a key.",
            "L<=6 (10); random.permutation: the real call is evaluated eagerly first (must be valid and yield a permutation of range(L)), then replaced by a symbolic permutation; jax's PRNG not analysed.  "
            "If the current get_batches cannot be traced with a symbolic permutation (Python control flow on index values), all L! permutations are run eagerly instead and the evidence says so.", "4/C17"),
    "C18": (JX, "symbolic execution of the jaxprs of the three losses vs. their written-out definitions; z3 (QF_NRA); lemma-based non-negativity",
            "For each enumerated type set / insertion-order pair / jit history z3 proves each loss equals its definition for ALL predictions and targets, "
            "is 0 on equal arguments, >= 0, invariant under every g, and the per-step losses sum to the total.",
            "Reals; batch<=2, steps<=2(3), tiny images; reduce='max' decided under a strict-maximum assumption.", "4/C18"),
    "C19": (XH, "CrossHair (per-path z3) on the real TrainLoss/ValLoss/EpochStop.stop: bounded symbolic histories vs. a reference state machine + one inductive step from an arbitrary state; CrossHair on the source of ml.train (cut out of training.py on every run, environment stubbed, real stopping conditions) for bounded symbolic loss histories",
            "CrossHair confirms over all paths that for symbolic loss histories (len<=3 quick, <=5 thorough), patience and min_delta the real conditions stop at exactly the "
            "specified epoch and hand back the best model, for float and non-float scalar representations; the inductive step covers any history length; the real ml.train loop runs exactly to the specified stopping epoch and returns the best epoch's model (len<=3 (4), patience<=2).",
            "Bounds: len<=3 (5), patience<=3 (5), losses in [0,100]; non-float scalars modelled by a wrapper + float() stub, validated with genuine np.float32/jax scalars.  "
            "Float rounding and non-finite losses are outside CrossHair's real-valued floats: the check adds concrete runs with genuine float32 / bfloat16 scalars (one-ulp improvements, NaN / inf after a finite first epoch).", "4/C19"),
    "C08": (JX, "symbolic execution of the jaxprs of the real norm / nonlinearity / pooling blocks with symbolic parameters; exact argmax encoding (ITE) under tie-freeness; eigh as a contract stub; z3 (QF_UFNRA)",
            "For each enumerated block configuration and every g z3 proves block(g.x) = g.block(x) for ALL inputs and ALL learnable parameter values "
            "(and patch-multiple shifts for pooling); max-pool under the statement's unique-maximiser precondition.",
            "Spectral lemma behind eigh is ASSUMED (stub contract + column-sign obligation), see DESIGN 2.3; activations uninterpreted; bounded N (2..6), channels<=4.", "4/C08"),
    "C10": (JX, "symbolic execution of the jaxprs of GroupAverage / Climate1D / ModelWrapper with the inner model as an uninterpreted function; z3 (QF_UFLRA)",
            "For each enumerated group, signature and layout z3 proves GA(h.x) = h.GA(x) for every h in G and EVERY inner model, GA = inner when averaging is off, "
            "the equator-flip commutation, from1d(to1d(x)) = x, to1d(lonflip.x) = flip.to1d(x), ModelWrapper's channel placement.",
            "Inner model reads blocks by type; N=3 (d=2), 2 (d=3); 1/|G| enters at the exact value of the float32 the code multiplies by.", "4/C10"),
    "C07": (JX, "monolithic symbolic execution of the real network __call__ jaxprs with ALL parameters and inputs symbolic; let-abstraction (hash-consed definition atoms), eigh contract stub, order-independent max-pool selection; z3 (QF_UFNRA), abstraction refined / replayed on sat",
            "For each enumerated architecture cell z3 proves model(g.x) = g.model(x) (and the stated translations) for ALL parameter values and ALL inputs, "
            "each output block with the requested type, for ConvBlock (both orders), ResNet, DilResNet, UNet.",
            "Assumes the eigh contract and the max-pool unique-maximiser precondition (both discharged/stated in C08); d=2 N=4 (8), d=3 N<=4; depth<=2, 1 block, "
            "1-2 downsamples; cells sampled (pairwise core + seeded).", "4/C07"),
    "C20": (JX, "shape inference on the traced real models (structural half, no solver) + symbolic execution with the scalar CNN as an uninterpreted function, z3 (QF_UFLRA) for component placement (value half)",
            "For each enumerated constructor cell the traced output has exactly the requested types, order, channel counts, spatial shape, D and flags (exact for all "
            "inputs: JAX shapes are value-independent); in conventional mode z3 proves every component of every type is the CNN output channel off_t + c*D^k + i.",
            "Structural half involves no SMT query (stated in evidence); BatchNorm off; cells sampled (pairwise core + seeded).", "4/C20"),
    "C09": (JX, "inductive step: jaxpr of the real ml.train_step, sliced by jax's dead-code elimination to the new filter-bank leaves and their optimiser moments, executed symbolically (filter bank symbolic); z3 (QF_NRA); dependency set of the slice read from the jaxpr; the same for the jaxpr of the whole ml.train loop (EpochStop)",
            "For each enumerated (model, optimiser, step count) z3 proves that one real train_step from an arbitrary state with zero filter moments maps every "
            "invariant-filter leaf to a common rescaling of itself (identically for sgd/adam) with zero new moments, and the slice depends on no data / other "
            "parameter (d loss/d filters == 0): an inductive invariant covering histories of any length; equivariance for all free-parameter values is C07.",
            "Optimisers {sgd, momentum, adam, adamw} (+lion, rmsprop, adagrad thorough); the whole ml.train loop is traced as one jaxpr under EpochStop only (epochs<=2 quick, 3 thorough; 2 batches per epoch): returned filter leaves depend on the initial ones alone and are a common rescaling; under TrainLoss/ValLoss the loop's control flow depends on loss values (C19).", "4/C09"),
}

NOT_YET = {}


def main():
    props = [json.loads(l) for l in open(os.path.join(HERE, "properties.jsonl"))]
    checks = []
    na = []
    for p in props:
        pid = p["id"]
        if pid in CLAIMED:
            eng, tech, text, note, ref = CLAIMED[pid]
            checks.append({
                "property_id": pid,
                "quick_cmd": f"./vcheck {pid} --tier quick",
                "thorough_cmd": f"./vcheck {pid} --tier thorough",
                "evidence_file": f"/verif/evidence/{pid}.json",
                "replay_cmd_template": f"./vcheck {pid} --replay {{path}}",
                "engine": eng,
                "level_claimed": {"category": "other", "text": text, "design_ref": f"DESIGN.md section {ref}"},
                "level_note": note,
                "technique": tech,
            })
        else:
            na.append({"property_id": pid, "reason": NOT_YET.get(pid, "solver-based check for this property is not built yet (work in progress); not claimed")})
    m = {
        "version": 1,
        "setup_cmd": "./setup.sh",
        "hooks": {
            "guard": "GINJAX_VERIF",
            "enable": "no source hooks are needed: the checks observe the real code through public entry points (jax.make_jaxpr) and model surgery on live objects; GINJAX_VERIF=1 is exported by ./vcheck but nothing in /repo reads it",
            "baseline_off_cmd": "cd /repo && /venv/bin/python -m pytest -ra -q -p no:cacheprovider --timeout=900 --continue-on-collection-errors",
            "source_commits": [],
            "add_only": True,
        },
        "engines": [
            {"name": JX, "path": "/verif/jxsmt", "serves_properties": [c["property_id"] for c in checks if c["engine"] == JX],
             "kind_free_text": "symbolic executor for jaxprs of the real ginjax functions (polynomials over atoms, uninterpreted functions) -> SMT-LIB2 -> z3; witnesses replayed on the real float code"},
            {"name": XH, "path": "/verif/xhair", "serves_properties": [c["property_id"] for c in checks if c["engine"] == XH],
             "kind_free_text": "CrossHair (per-path z3) on the real pure-Python functions"},
        ],
        "checks": checks,
        "not_applicable": na,
        "notes": "All checks: exit 0 = held on everything explored (KNOWN-FINDING lines for listed findings), 1 = VIOLATION reproduced on the real code, 3 = inconclusive (never success). known_findings.json lists fixed and known defects.",
    }
    with open(os.path.join(HERE, "MANIFEST.json"), "w") as f:
        json.dump(m, f, indent=1)
    print("claimed", [c["property_id"] for c in checks], "not_applicable", len(na))


if __name__ == "__main__":
    main()
