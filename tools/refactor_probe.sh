#!/bin/bash
# usage: refactor_probe.sh <worktree with a behaviour-preserving refactoring applied> <out file> [checks...]
# Runs the quick checks against that worktree (PYTHONPATH shadows the editable install; /repo untouched).
WT=$1; OUT=$2; shift 2
CHECKS=${@:-C01 C02 C03 C04 C05 C06 C07 C08 C09 C10 C11 C12 C13 C14 C15 C16 C17 C18 C19 C20}
cd /verif
: > $OUT
for c in $CHECKS; do
  PYTHONPATH=$WT/src VERIF_REPO=$WT ./vcheck $c --tier quick --no-evidence --jobs 6 > /tmp/rfprobe_$$.log 2>&1
  rc=$?
  echo "$c exit=$rc $(grep '^\[' /tmp/rfprobe_$$.log | tail -1)" >> $OUT
  if [ $rc -ne 0 ]; then grep -E "violated|INCONCLUSIVE|Error|error" /tmp/rfprobe_$$.log | head -8 >> $OUT; fi
done
rm -f /tmp/rfprobe_$$.log
echo DONE >> $OUT
