#!/usr/bin/env python3
"""Systematic mutation sweep (development aid, not a registered check).

Generates single-site AST mutants of the ginjax source lines that the properties are anchored in
(properties.jsonl -> anchors.mechanism[].where), each in its own scratch copy of src/ under --dir
(outside /repo and /verif), and runs the quick check of every property anchored at the mutated line
against that copy (PYTHONPATH shadows the editable install, VERIF_REPO points the file-path loaders
at it).  /repo is never touched.  Output: <dir>/results.jsonl, one line per (mutant, property):
exit 1 = reported (VIOLATION), 0 = missed (equivalent mutant or blind spot -> triage), 3 = inconclusive.

  mutsweep.py gen  --dir /tmp/ms --per-prop 12 --seed 1
  mutsweep.py run  --dir /tmp/ms --par 4 --jobs 4
  mutsweep.py show --dir /tmp/ms
"""
import argparse
import ast
import copy
import json
import os
import random
import re
import shutil
import subprocess
import sys
import time
from concurrent.futures import ThreadPoolExecutor

VERIF = os.path.dirname(os.path.dirname(os.path.abspath(__file__)))
REPO = "/repo"


BASE_COMMIT = "48acaa7"  # the pinned tree the anchors' line numbers refer to (before the fix: commits)


def _line_map(f):
    """old line number -> new line number (difflib over the pinned version and HEAD of file f)."""
    import difflib
    try:
        old = subprocess.run(["git", "-C", REPO, "show", f"{BASE_COMMIT}:{f}"], capture_output=True, text=True, check=True).stdout.splitlines()
    except Exception:  # noqa: BLE001
        return None
    new = open(os.path.join(REPO, f)).read().splitlines()
    mp = {}
    for tag, i1, i2, j1, j2 in difflib.SequenceMatcher(None, old, new, autojunk=False).get_opcodes():
        if tag == "equal":
            for k in range(i2 - i1):
                mp[i1 + k + 1] = j1 + k + 1
        else:
            for k in range(i2 - i1):
                mp[i1 + k + 1] = min(j1 + k, j2 - 1 if j2 > j1 else j1) + 1
    return mp


def anchors():
    """{(file): [(lo, hi, prop)]} in HEAD line numbers"""
    raw = _anchors_raw()
    out = {}
    for f, rngs in raw.items():
        mp = _line_map(f)
        for lo, hi, p in rngs:
            if mp:
                lo, hi = mp.get(lo, lo), mp.get(hi, hi)
            out.setdefault(f, []).append((lo, hi, p))
    return out


def _anchors_raw():
    out = {}
    for l in open(os.path.join(VERIF, "properties.jsonl")):
        p = json.loads(l)
        for m in p["anchors"]["mechanism"]:
            for part in m["where"].split(";"):
                part = part.strip()
                if ":" not in part:
                    continue
                f, rngs = part.split(":", 1)
                for r in rngs.split(","):
                    mm = re.match(r"\s*(\d+)(?:-(\d+))?", r)
                    if not mm:
                        continue
                    lo = int(mm.group(1))
                    hi = int(mm.group(2) or lo)
                    out.setdefault(f.strip(), []).append((lo, hi, p["id"]))
    return out


class Site:
    def __init__(self, node, op, desc, apply):
        self.node, self.op, self.desc, self.apply = node, op, desc, apply


def sites_of(tree):
    """Enumerate (lineno, op, description, mutate(tree_copy_node)) over the module."""
    res = []
    idx = {}
    for i, n in enumerate(ast.walk(tree)):
        idx[id(n)] = i

    def add(n, op, desc, fn):
        res.append((getattr(n, "lineno", 0), op, desc, idx[id(n)], fn))

    swaps_bin = {ast.Add: ast.Sub, ast.Sub: ast.Add, ast.Mult: ast.FloorDiv, ast.FloorDiv: ast.Mult, ast.Mod: ast.FloorDiv}
    swaps_cmp = {ast.Lt: ast.LtE, ast.LtE: ast.Lt, ast.Gt: ast.GtE, ast.GtE: ast.Gt, ast.Eq: ast.NotEq, ast.NotEq: ast.Eq,
                 ast.In: ast.NotIn, ast.NotIn: ast.In, ast.Is: ast.IsNot, ast.IsNot: ast.Is}
    unwrap = {"stop_gradient", "abs", "reversed", "sorted", "tuple_reversed", "squeeze", "copy"}
    for n in ast.walk(tree):
        if isinstance(n, ast.BinOp) and type(n.op) in swaps_bin:
            new = swaps_bin[type(n.op)]
            add(n, "binop", f"{type(n.op).__name__}->{new.__name__}", lambda m, new=new: setattr(m, "op", new()))
            if isinstance(n.op, (ast.Sub, ast.FloorDiv, ast.Mod)):
                add(n, "binop_swap", "swap operands", _swap_lr)
        elif isinstance(n, ast.BinOp) and isinstance(n.op, (ast.MatMult, ast.Div)):
            add(n, "binop_swap", f"swap operands of {type(n.op).__name__}", _swap_lr)
        elif isinstance(n, ast.Compare) and len(n.ops) == 1 and type(n.ops[0]) in swaps_cmp:
            new = swaps_cmp[type(n.ops[0])]
            add(n, "cmp", f"{type(n.ops[0]).__name__}->{new.__name__}", lambda m, new=new: setattr(m, "ops", [new()]))
        elif isinstance(n, ast.BoolOp):
            new = ast.Or if isinstance(n.op, ast.And) else ast.And
            add(n, "boolop", f"{type(n.op).__name__}->{new.__name__}", lambda m, new=new: setattr(m, "op", new()))
        elif isinstance(n, ast.UnaryOp) and isinstance(n.op, (ast.Not, ast.USub)):
            add(n, "unary_drop", f"drop {type(n.op).__name__}", lambda m: "REPLACE_WITH_OPERAND")
        elif isinstance(n, ast.Constant) and isinstance(n.value, bool):
            add(n, "const_bool", f"{n.value}->{not n.value}", lambda m: setattr(m, "value", not m.value))
        elif isinstance(n, ast.Constant) and isinstance(n.value, int) and abs(n.value) <= 4:
            for d in (1, -1):
                add(n, "const_int", f"{n.value}->{n.value + d}", lambda m, d=d: setattr(m, "value", m.value + d))
        elif isinstance(n, ast.Constant) and isinstance(n.value, str) and "->" in n.value and re.fullmatch(r"[a-zA-Z,\.\-> ]+", n.value):
            # einsum spec: swap two letters of the output, or of the first operand
            lhs, rhs = n.value.split("->")
            if len(rhs.replace(".", "")) >= 2:
                add(n, "einsum_out", "swap last two output letters", lambda m: setattr(m, "value", _swap_last(m.value, True)))
            add(n, "einsum_in", "swap last two letters of first operand", lambda m: setattr(m, "value", _swap_last(m.value, False)))
        elif isinstance(n, ast.Call):
            fname = n.func.attr if isinstance(n.func, ast.Attribute) else (n.func.id if isinstance(n.func, ast.Name) else "")
            if fname in unwrap and len(n.args) >= 1:
                add(n, "unwrap", f"drop {fname}()", lambda m: "REPLACE_WITH_ARG0")
            if len(n.args) >= 2 and not any(isinstance(a, ast.Starred) for a in n.args[:2]) and fname not in ("isinstance", "range", "getattr", "hasattr", "print", "zip"):
                add(n, "argswap", f"swap first two args of {fname}", lambda m: _swap_args(m))
            for kw in n.keywords:
                if kw.arg in ("axis", "axes") and isinstance(kw.value, ast.Constant) and isinstance(kw.value.value, int):
                    pass  # covered by const_int
        elif isinstance(n, ast.Continue):
            add(n, "continue_break", "continue->break", lambda m: "REPLACE_WITH_BREAK")
        elif isinstance(n, ast.If):
            add(n, "if_negate", "negate condition", lambda m: setattr(m, "test", ast.UnaryOp(op=ast.Not(), operand=m.test)))
        elif isinstance(n, ast.Subscript) and isinstance(n.slice, ast.Slice) and n.slice.step is not None:
            add(n, "slice_step", "drop slice step", lambda m: setattr(m.slice, "step", None))
        elif isinstance(n, ast.IfExp):
            add(n, "ifexp_swap", "swap branches", lambda m: _swap_ifexp(m))
    return res


def _swap_lr(m):
    m.left, m.right = m.right, m.left


def _swap_args(m):
    m.args[0], m.args[1] = m.args[1], m.args[0]


def _swap_ifexp(m):
    m.body, m.orelse = m.orelse, m.body


def _swap_last(spec, out):
    lhs, rhs = spec.split("->")
    if out:
        r = list(rhs)
        ii = [i for i, c in enumerate(r) if c.isalpha()]
        if len(ii) >= 2:
            r[ii[-1]], r[ii[-2]] = r[ii[-2]], r[ii[-1]]
        return lhs + "->" + "".join(r)
    ops = lhs.split(",")
    r = list(ops[0])
    ii = [i for i, c in enumerate(r) if c.isalpha()]
    if len(ii) >= 2:
        r[ii[-1]], r[ii[-2]] = r[ii[-2]], r[ii[-1]]
    ops[0] = "".join(r)
    return ",".join(ops) + "->" + rhs


def mutate_source(src, node_index, fn):
    tree = ast.parse(src)
    nodes = list(ast.walk(tree))
    target = nodes[node_index]
    r = fn(target)
    if isinstance(r, str) and r.startswith("REPLACE_WITH"):
        class T(ast.NodeTransformer):
            def visit(self, n):
                if n is target:
                    if r == "REPLACE_WITH_OPERAND":
                        return n.operand
                    if r == "REPLACE_WITH_ARG0":
                        return n.args[0]
                    if r == "REPLACE_WITH_BREAK":
                        return ast.Break()
                return self.generic_visit(n)
        tree = T().visit(tree)
    ast.fix_missing_locations(tree)
    return ast.unparse(tree)


def gen(a):
    rng = random.Random(a.seed)
    anc = anchors()
    os.makedirs(a.dir, exist_ok=True)
    by_prop = {}
    for f, rngs in anc.items():
        path = os.path.join(REPO, f)
        if not os.path.exists(path):
            continue
        src = open(path).read()
        tree = ast.parse(src)
        # skip docstrings / type annotations: only sites inside function bodies' executable code
        doc_lines = set()
        for n in ast.walk(tree):
            if isinstance(n, (ast.FunctionDef, ast.ClassDef, ast.Module)) and n.body and isinstance(n.body[0], ast.Expr) \
                    and isinstance(getattr(n.body[0], "value", None), ast.Constant) and isinstance(n.body[0].value.value, str):
                doc_lines.update(range(n.body[0].lineno, n.body[0].end_lineno + 1))
        ann = set()
        for n in ast.walk(tree):
            if isinstance(n, ast.arg) and n.annotation is not None:
                for q in ast.walk(n.annotation):
                    ann.add(id(q))
            if isinstance(n, ast.FunctionDef) and n.returns is not None:
                for q in ast.walk(n.returns):
                    ann.add(id(q))
            if isinstance(n, ast.AnnAssign):
                for q in ast.walk(n.annotation):
                    ann.add(id(q))
        nodes = list(ast.walk(tree))
        for (ln, op, desc, ni, fn) in sites_of(tree):
            if ln in doc_lines or id(nodes[ni]) in ann:
                continue
            props = sorted({p for lo, hi, p in rngs if lo <= ln <= hi})
            if not props:
                continue
            line = src.splitlines()[ln - 1].strip()
            if line.startswith("assert") or "raise " in line or line.startswith("print") or "isinstance" in line:
                continue
            for p in props:
                by_prop.setdefault(p, []).append({"file": f, "line": ln, "op": op, "desc": desc, "node": ni, "src_line": line, "props": props})
    muts = []
    seen = set()
    for p in sorted(by_prop):
        cand = by_prop[p]
        rng.shuffle(cand)
        # diversify operators: round-robin over op kinds
        byop = {}
        for c in cand:
            byop.setdefault(c["op"], []).append(c)
        picked = []
        while len(picked) < a.per_prop and any(byop.values()):
            for op in sorted(byop):
                if byop[op] and len(picked) < a.per_prop:
                    c = byop[op].pop()
                    k = (c["file"], c["node"], c["desc"])
                    if k in seen:
                        continue
                    seen.add(k)
                    picked.append(c)
        muts.extend(picked)
    out = []
    for i, m in enumerate(muts):
        src = open(os.path.join(REPO, m["file"])).read()
        fn = [s for s in sites_of(ast.parse(src)) if s[3] == m["node"] and s[2] == m["desc"]][0][4]
        try:
            new = mutate_source(src, m["node"], fn)
            compile(new, m["file"], "exec")
        except Exception as e:  # noqa: BLE001
            continue
        if ast.dump(ast.parse(new)) == ast.dump(ast.parse(src)):
            continue
        m["id"] = f"m{a.seed}_{i:04d}"
        d = os.path.join(a.dir, m["id"])
        os.makedirs(d, exist_ok=True)
        with open(os.path.join(d, "mutated.py"), "w") as f:
            f.write(new)
        out.append(m)
    with open(os.path.join(a.dir, "mutants.jsonl"), "a") as f:
        for m in out:
            f.write(json.dumps(m) + "\n")
    print(f"generated {len(out)} mutants in {a.dir}")


def run_one(a, m):
    d = os.path.join(a.dir, m["id"])
    srcdir = os.path.join(d, "src")
    if os.path.exists(srcdir):
        shutil.rmtree(srcdir)
    shutil.copytree(os.path.join(a.dir, "_base", "src"), srcdir, ignore=shutil.ignore_patterns("__pycache__", "*.egg-info"))
    shutil.copy(os.path.join(d, "mutated.py"), os.path.join(d, m["file"]))
    res = []
    env = dict(os.environ, PYTHONPATH=srcdir, VERIF_REPO=d)
    props = m["props"] if not a.props else [p for p in a.props.split(",")]
    for p in props:
        t0 = time.time()
        try:
            pr = subprocess.run([os.path.join(VERIF, "vcheck"), p, "--tier", a.tier, "--no-evidence", "--jobs", str(a.jobs)],
                                capture_output=True, text=True, env=env, timeout=a.timeout)
            rc, out = pr.returncode, pr.stdout + pr.stderr
        except subprocess.TimeoutExpired:
            rc, out = 124, "timeout"
        lines = [l for l in out.splitlines() if l.startswith("  violated") or l.startswith("INCONCLUSIVE") or l.startswith("[")]
        r = {"id": m["id"], "prop": p, "exit": rc, "wall_s": round(time.time() - t0), "file": m["file"], "line": m["line"],
             "op": m["op"], "desc": m["desc"], "src_line": m["src_line"], "first": [l[:300] for l in lines[:2]], "summary": lines[-1][:300] if lines else out[-300:]}
        res.append(r)
    shutil.rmtree(srcdir, ignore_errors=True)
    return res


def run(a):
    muts = [json.loads(l) for l in open(os.path.join(a.dir, "mutants.jsonl"))]
    base = os.path.join(a.dir, "_base")
    if not os.path.exists(base):
        # pristine snapshot of HEAD (so that /repo may be patched temporarily by other tools while the sweep runs)
        os.makedirs(base)
        subprocess.run(f"git -C {REPO} archive HEAD src | tar -x -C {base}", shell=True, check=True)
    done = set()
    rp = os.path.join(a.dir, "results.jsonl")
    if os.path.exists(rp):
        done = {json.loads(l)["id"] for l in open(rp)}
    muts = [m for m in muts if m["id"] not in done]
    if a.only:
        muts = [m for m in muts if any(p in a.only.split(",") for p in m["props"])]
    print(f"{len(muts)} mutants to run")
    with ThreadPoolExecutor(max_workers=a.par) as ex:
        for res in ex.map(lambda m: run_one(a, m), muts):
            with open(rp, "a") as f:
                for r in res:
                    f.write(json.dumps(r) + "\n")
                    print(r["id"], r["prop"], "exit", r["exit"], f"{r['wall_s']}s", r["file"].split("/")[-1], r["line"], r["op"], r["desc"], "|", r["src_line"][:80], flush=True)


def show(a):
    rs = [json.loads(l) for l in open(os.path.join(a.dir, "results.jsonl"))]
    bym = {}
    for r in rs:
        bym.setdefault(r["id"], []).append(r)
    caught = sum(1 for v in bym.values() if any(r["exit"] == 1 for r in v))
    print(f"mutants={len(bym)} reported={caught}")
    for mid, v in sorted(bym.items()):
        if not any(r["exit"] == 1 for r in v):
            r = v[0]
            print(mid, [(q["prop"], q["exit"]) for q in v], r["file"].split("/")[-1], r["line"], r["op"], r["desc"], "|", r["src_line"][:100])
            for q in v:
                if q["exit"] not in (0, 1):
                    print("     ", q["prop"], q["summary"][:250])


if __name__ == "__main__":
    ap = argparse.ArgumentParser()
    ap.add_argument("cmd", choices=["gen", "run", "show"])
    ap.add_argument("--dir", default="/tmp/ms")
    ap.add_argument("--per-prop", type=int, default=12)
    ap.add_argument("--seed", type=int, default=1)
    ap.add_argument("--par", type=int, default=4)
    ap.add_argument("--jobs", type=int, default=4)
    ap.add_argument("--tier", default="quick")
    ap.add_argument("--timeout", type=int, default=1800)
    ap.add_argument("--props", default="")
    ap.add_argument("--only", default="")
    a = ap.parse_args()
    {"gen": gen, "run": run, "show": show}[a.cmd](a)
