#!/usr/bin/env python3
"""Confirm a seeded change produced by an independent sub-agent and record it under /verif/seeded/<name>/.

usage: seed_verify.py <name> <src_dir> <property> --tests tests/test_a.py,... --checks C01,C04 [--tier quick]

Steps (all in a scratch worktree outside /repo and /verif, removed afterwards):
  1. demo.py on the unchanged tree must exit 0; with patch.diff applied it must exit non-zero;
  2. the named existing test files must pass with the patch applied;
  3. the patch is applied to /repo (git apply), the named checks are run, and /repo is restored (git checkout -- .).
"""
import argparse
import json
import os
import shutil
import subprocess
import sys
import time

VERIF = os.path.dirname(os.path.dirname(os.path.abspath(__file__)))


def sh(cmd, **kw):
    p = subprocess.run(cmd, shell=True, capture_output=True, text=True, **kw)
    return p.returncode, (p.stdout + p.stderr)


def main():
    ap = argparse.ArgumentParser()
    ap.add_argument("name")
    ap.add_argument("src")
    ap.add_argument("prop")
    ap.add_argument("--tests", default="")
    ap.add_argument("--checks", default="")
    ap.add_argument("--tier", default="quick")
    ap.add_argument("--needs", default="")
    ap.add_argument("--skip-tests", action="store_true")
    a = ap.parse_args()
    wt = f"/tmp/vw_{a.name}"
    sh(f"git -C /repo worktree remove --force {wt}")
    rc, out = sh(f"git -C /repo worktree add -q {wt} HEAD")
    assert rc == 0, out
    meta = {"name": a.name, "breaks_property": a.prop, "needs_to_manifest": a.needs, "ran": []}
    env = dict(os.environ, PYTHONPATH=f"{wt}/src", JAX_PLATFORMS="cpu")
    try:
        patch = os.path.join(a.src, "patch.diff")
        demo = os.path.join(a.src, "demo.py")
        rc0, out0 = sh(f"cd {wt} && /venv/bin/python {demo}", env=env)
        meta["ran"].append({"cmd": "demo.py on unchanged tree", "exit": rc0, "tail": out0[-300:]})
        rc, out = sh(f"git -C {wt} apply {patch}")
        assert rc == 0, "patch does not apply: " + out
        rc1, out1 = sh(f"cd {wt} && /venv/bin/python {demo}", env=env)
        meta["ran"].append({"cmd": "demo.py with the change", "exit": rc1, "tail": out1[-500:]})
        tests_ok = None
        if a.tests and not a.skip_tests:
            t0 = time.time()
            rc2, out2 = sh(f"cd {wt} && /venv/bin/python -m pytest -q -p no:cacheprovider --timeout=900 {a.tests.replace(',', ' ')}", env=env)
            tests_ok = rc2 == 0
            meta["ran"].append({"cmd": f"pytest {a.tests} with the change", "exit": rc2, "tail": out2[-300:], "wall_s": round(time.time() - t0)})
        meta["demo_passes_without"] = rc0 == 0
        meta["demo_fails_with"] = rc1 != 0
        meta["existing_tests_pass_with_change"] = tests_ok
    finally:
        sh(f"git -C /repo worktree remove --force {wt}")
    # run the checks against /repo with the change applied
    st, _ = sh("git -C /repo status --porcelain")
    assert _.strip() == "", "/repo is not clean: " + _
    rc, out = sh(f"git -C /repo apply {patch}")
    assert rc == 0, out
    caught = {}
    try:
        for c in [x for x in a.checks.split(",") if x]:
            t0 = time.time()
            rc, out = sh(f"cd {VERIF} && ./vcheck {c} --tier {a.tier} --no-evidence")
            lines = [l for l in out.splitlines() if l.startswith("VIOLATION") or l.startswith("  violated") or l.startswith("[") or l.startswith("INCONCLUSIVE")]
            caught[c] = {"exit": rc, "wall_s": round(time.time() - t0), "summary": lines[-1] if lines else "", "first_violations": [l[:400] for l in lines if "violated" in l][:3]}
            meta["ran"].append({"cmd": f"./vcheck {c} --tier {a.tier} (change applied to /repo with git apply, undone with git checkout -- .)", "exit": rc})
    finally:
        sh("git -C /repo checkout -- .")
    meta["checks"] = caught
    meta["caught_by"] = [c for c, r in caught.items() if r["exit"] == 1]
    dst = os.path.join(VERIF, "seeded", a.name)
    os.makedirs(dst, exist_ok=True)
    shutil.copy(patch, os.path.join(dst, "patch.diff"))
    shutil.copy(demo, os.path.join(dst, "demo.py"))
    if os.path.exists(os.path.join(a.src, "notes.md")):
        shutil.copy(os.path.join(a.src, "notes.md"), os.path.join(dst, "notes.md"))
    with open(os.path.join(dst, "meta.json"), "w") as f:
        json.dump(meta, f, indent=1)
    print(json.dumps({k: meta[k] for k in ("demo_passes_without", "demo_fails_with", "existing_tests_pass_with_change", "caught_by")}, indent=1))
    for c, r in caught.items():
        print(c, r["exit"], r["summary"][:200])
        for l in r["first_violations"]:
            print("   ", l[:300])


if __name__ == "__main__":
    main()
