#!/bin/bash
# usage: mutone.sh <sweep dir> <mutant id> <checks...>   run given quick checks against one sweep mutant
DIR=$1; ID=$2; shift 2
F=$(python3 -c "import json,sys
for l in open('$DIR/mutants.jsonl'):
    m=json.loads(l)
    if m['id']=='$ID': print(m['file'])" 2>/dev/null)
W=/tmp/mutone_$ID; rm -rf $W; mkdir -p $W; cp -r $DIR/_base/src $W/src; cp $DIR/$ID/mutated.py $W/$F
cd /verif
for c in "$@"; do
  PYTHONPATH=$W/src VERIF_REPO=$W ./vcheck $c --tier quick --no-evidence --jobs 6 > $W/out.log 2>&1; rc=$?
  echo "$ID $c exit=$rc $(grep '^\[' $W/out.log | tail -1)"; grep -E "violated|INCONCLUSIVE" $W/out.log | head -3
done
rm -rf $W
