from typing import List
import importlib.util, sys
spec = importlib.util.spec_from_file_location("sc_mod", "/repo/src/ginjax/ml/stopping_conditions.py")
sc_mod = importlib.util.module_from_spec(spec); spec.loader.exec_module(sc_mod)

class NF:
    """stands for np.float32 / 0-d jax array: comparable, subtractable, float()-able, but not a float"""
    def __init__(self, v): self.v = v
    def __lt__(self, o): return self.v < (o.v if isinstance(o, NF) else o)
    def __gt__(self, o): return self.v > (o.v if isinstance(o, NF) else o)
    def __sub__(self, o): return NF(self.v - (o.v if isinstance(o, NF) else o))
    def __rsub__(self, o): return NF(o - self.v)
    def __float__(self): return self.v

def fixed_stop(self, model, current_epoch, train_loss, val_loss, epoch_time):
    # what a float()-based repair would look like
    if train_loss is None:
        return False
    train_loss = float(train_loss)
    if train_loss < (self.best_train_loss - self.min_delta):
        self.best_train_loss = train_loss; self.best_model = model; self.epochs_since_best = 0
    else:
        self.epochs_since_best += 1
    return self.epochs_since_best > self.patience

def spec_first_stop(losses, patience, min_delta):
    best = float('inf'); since = 0
    for i, l in enumerate(losses):
        if l < best - min_delta: best = l; since = 0
        else: since += 1
        if since > patience: return i
    return -1

def real_nonfloat(losses: List[float], patience: int) -> bool:
    """
    pre: 0 <= patience <= 1 and 1 <= len(losses) <= 3
    pre: all(0 <= l <= 100 for l in losses)
    post: _
    """
    sc = sc_mod.TrainLoss(patience=patience, min_delta=0)
    first = -1
    for i, l in enumerate(losses):
        if sc.stop(i, i, NF(l), None, 0.0):
            first = i; break
    return first == spec_first_stop(losses, patience, 0)

def fixed_nonfloat(losses: List[float], patience: int) -> bool:
    """
    pre: 0 <= patience <= 1 and 1 <= len(losses) <= 3
    pre: all(0 <= l <= 100 for l in losses)
    post: _
    """
    sc = sc_mod.TrainLoss(patience=patience, min_delta=0)
    first = -1
    for i, l in enumerate(losses):
        if fixed_stop(sc, i, i, NF(l), None, 0.0):
            first = i; break
    return first == spec_first_stop(losses, patience, 0)

import builtins
def _conv(x):
    return x.v if isinstance(x, NF) else builtins.float(x)
def fixed_stop2(self, model, current_epoch, train_loss, val_loss, epoch_time):
    if train_loss is None:
        return False
    train_loss = _float(train_loss)
    if train_loss < (self.best_train_loss - self.min_delta):
        self.best_train_loss = train_loss; self.best_model = model; self.epochs_since_best = 0
    else:
        self.epochs_since_best += 1
    return self.epochs_since_best > self.patience
_float = _conv

def fixed_nonfloat2(losses: List[float], patience: int) -> bool:
    """
    pre: 0 <= patience <= 1 and 1 <= len(losses) <= 3
    pre: all(0 <= l <= 100 for l in losses)
    post: _
    """
    sc = sc_mod.TrainLoss(patience=patience, min_delta=0)
    first = -1
    for i, l in enumerate(losses):
        if fixed_stop2(sc, i, i, NF(l), None, 0.0):
            first = i; break
    return first == spec_first_stop(losses, patience, 0)
