from typing import List
from ginjax.ml.stopping_conditions import TrainLoss, EpochStop

def spec_stop_epoch(losses, patience, min_delta):
    best = float('inf'); since = 0
    for i, l in enumerate(losses):
        if l < best - min_delta:
            best = l; since = 0
        else:
            since += 1
        if since > patience:
            return i
    return -1

def check_trainloss(losses: List[float], patience: int, min_delta: float) -> bool:
    """
    pre: 0 <= patience <= 2
    pre: 0 <= min_delta <= 10
    pre: 1 <= len(losses) <= 4
    pre: all(0 <= l <= 100 for l in losses)
    post: _
    """
    sc = TrainLoss(patience=patience, min_delta=min_delta)
    first = -1
    best_idx = -1
    for i, l in enumerate(losses):
        r = sc.stop(('model', i), i, l, None, 0.0)
        if r and first < 0:
            first = i
            break
    return first == spec_stop_epoch(losses, patience, min_delta)

def check_trainloss_bug(losses: List[float], patience: int) -> bool:
    """
    pre: 0 <= patience <= 2
    pre: 1 <= len(losses) <= 4
    pre: all(0 <= l <= 100 for l in losses)
    post: _
    """
    sc = TrainLoss(patience=patience, min_delta=0)
    stops = [sc.stop(('model', i), i, l, None, 0.0) for i, l in enumerate(losses)]
    # deliberately wrong spec: never stops within 4 epochs
    return not any(stops)
