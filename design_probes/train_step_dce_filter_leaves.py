import time, collections
import jax, jax.numpy as jnp, numpy as np, equinox as eqx, optax
from jax._src.interpreters import partial_eval as pe
import ginjax.geometric as geom, ginjax.ml as ml, ginjax.models as models
from ginjax.ml.training import train_step
def prims(jaxpr, acc=None):
    acc = collections.Counter() if acc is None else acc
    for e in jaxpr.eqns:
        acc[e.primitive.name]+=1
        for v in e.params.values():
            for sub in (v if isinstance(v,(list,tuple)) else [v]):
                if hasattr(sub,'jaxpr') and hasattr(sub.jaxpr,'eqns'): prims(sub.jaxpr, acc)
                elif hasattr(sub,'eqns'): prims(sub, acc)
    return acc
D=2; ops=geom.make_all_operators(D); key=jax.random.PRNGKey(0)
filt=geom.get_invariant_filters([3],[0,1,2],[0],D,ops)
filt2=geom.get_invariant_filters([2],[0,1,2],[0],D,ops)
ik=geom.Signature((((0,0),1),((1,0),1))); ok=geom.Signature((((1,0),1),))
m=models.UNet(D,ik,ok,depth=1,num_downsamples=1,num_conv=1,equivariant=True,conv_filters=filt,upsample_filters=filt2,use_group_norm=True,key=key)
def map_and_loss(model,x,y,aux):
    out=jax.vmap(lambda xx: model(xx)[0])(x); return ml.smse_loss(out,y), aux
X=geom.MultiImage({(0,0):jnp.ones((1,2,1,4,4)),(1,0):jnp.ones((1,2,1,4,4,2))},D,True)
Y=geom.MultiImage({(1,0):jnp.ones((1,2,1,4,4,2))},D,True)
optim=optax.adamw(0.1,weight_decay=0.01)
params,static=eqx.partition(m,eqx.is_array)
ost=optim.init(params); osa,oss=eqx.partition(ost,eqx.is_array)
def step(p,osa,x,y):
    model=eqx.combine(p,static); o=eqx.combine(osa,oss)
    m2,o2,loss,_=train_step(map_and_loss,model,optim,o,x,y,None)
    return eqx.filter(m2,eqx.is_array), eqx.filter(o2,eqx.is_array), loss
t=time.time(); jp,shape=jax.make_jaxpr(step,return_shape=True)(params,osa,X,Y); print('trace',round(time.time()-t,1), sum(prims(jp.jaxpr).values()))
paths=[jax.tree_util.keystr(p) for p,_ in jax.tree_util.tree_flatten_with_path(shape)[0]]
idx=[i for i,p in enumerate(paths) if 'invariant_filters' in p and p.startswith('[0]')]
print(len(paths),'outputs;',len(idx),'filter leaves of new model e.g.',paths[idx[0]])
used=[i in idx for i in range(len(paths))]
dj,used_in=pe.dce_jaxpr(jp.jaxpr,used)
print('after DCE',dict(prims(dj)), 'inputs used',sum(used_in),'of',len(used_in))
