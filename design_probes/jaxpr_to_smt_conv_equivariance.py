# throwaway feasibility probe: jaxpr -> polynomial symbolic execution -> SMT-LIB -> z3
import time, itertools, sys
from fractions import Fraction
import numpy as np, jax, jax.numpy as jnp
from jax.extend import core as jcore
import z3

class Poly:
    __slots__=('t',)
    def __init__(self,t): self.t=t  # dict monomial(tuple of sorted var ids)->Fraction
    @staticmethod
    def const(c):
        c=Fraction(c); return Poly({():c} if c else {})
    @staticmethod
    def var(i): return Poly({(i,):Fraction(1)})
    def __add__(a,b):
        if not isinstance(b,Poly): b=Poly.const(b)
        t=dict(a.t)
        for m,c in b.t.items():
            v=t.get(m,0)+c
            if v: t[m]=v
            else: t.pop(m,None)
        return Poly(t)
    __radd__=__add__
    def __neg__(a): return Poly({m:-c for m,c in a.t.items()})
    def __sub__(a,b): return a+(-b if isinstance(b,Poly) else Poly.const(-Fraction(b)))
    def __rsub__(a,b): return (-a)+b
    def __mul__(a,b):
        if not isinstance(b,Poly): b=Poly.const(b)
        t={}
        for m1,c1 in a.t.items():
            for m2,c2 in b.t.items():
                m=tuple(sorted(m1+m2)); v=t.get(m,0)+c1*c2
                if v: t[m]=v
                else: t.pop(m,None)
        return Poly(t)
    __rmul__=__mul__
    def smt(self):
        if not self.t: return "0.0"
        terms=[]
        for m,c in sorted(self.t.items()):
            cs = f"(/ {c.numerator}.0 {c.denominator}.0)" if c>=0 else f"(- (/ {-c.numerator}.0 {c.denominator}.0))"
            terms.append("(* "+" ".join([cs]+[f"x{i}" for i in m])+")")
        return "(+ 0.0 "+" ".join(terms)+")"

def is_sym(a): return isinstance(a,np.ndarray) and a.dtype==object
MOVE={'reshape','transpose','slice','concatenate','gather','broadcast_in_dim','squeeze','pad','select_n','unstack','rev','expand_dims','copy','dynamic_slice','convert_element_type','stop_gradient','copy_p'}
def run(jaxpr, consts, args):
    env={}
    def read(v): return v.val if isinstance(v,jcore.Literal) else env[v]
    for v,c in zip(jaxpr.constvars,consts): env[v]=c
    for v,a in zip(jaxpr.invars,args): env[v]=a
    for e in jaxpr.eqns:
        ins=[read(v) for v in e.invars]; name=e.primitive.name
        if not any(is_sym(a) for a in ins):
            out=e.primitive.bind(*ins,**e.params)
            outs=out if e.primitive.multiple_results else [out]
        elif name in ('jit','pjit','custom_jvp_call','closed_call'):
            sub=e.params.get('jaxpr') or e.params.get('call_jaxpr')
            outs=run(sub.jaxpr,sub.consts,ins)
        elif name in MOVE:
            # index-array trick: run the real primitive on element ids
            pool=[]; idins=[]
            for a in ins:
                if is_sym(a):
                    ids=np.arange(len(pool),len(pool)+a.size,dtype=np.int32).reshape(a.shape); pool.extend(a.ravel()); idins.append(jnp.asarray(ids))
                elif name in('select_n',) and np.asarray(a).dtype==bool: idins.append(a)
                elif name=='gather' and a is ins[1]: idins.append(a)
                else:
                    a=np.asarray(a); ids=np.arange(len(pool),len(pool)+a.size,dtype=np.int32).reshape(a.shape); pool.extend(Poly.const(Fraction(float(x))) for x in a.ravel()); idins.append(jnp.asarray(ids))
            params=dict(e.params)
            if name=='convert_element_type': outs_id=[idins[0]]
            elif name=='stop_gradient': outs_id=[idins[0]]
            else:
                r=e.primitive.bind(*idins,**params); outs_id=r if e.primitive.multiple_results else [r]
            outs=[]
            for r in outs_id:
                r=np.asarray(r); o=np.empty(r.shape,dtype=object); flat=o.reshape(-1) if o.size else o
                for k,i in enumerate(r.ravel()): flat[k]=pool[i]
                outs.append(o)
        elif name in('add','sub','mul','add_any'):
            a,b=[x if is_sym(x) else np.vectorize(lambda v:Poly.const(Fraction(float(v))),otypes=[object])(np.asarray(x)) for x in ins]
            outs=[{'add':a+b,'add_any':a+b,'sub':a-b,'mul':a*b}[name]]
        elif name=='neg': outs=[-ins[0]]
        elif name=='integer_pow':
            y=e.params['y']; r=ins[0]
            o=r
            for _ in range(y-1): o=o*r
            outs=[o]
        elif name=='reduce_sum':
            outs=[np.sum(ins[0],axis=tuple(e.params['axes']))]
        elif name=='dot_general':
            (ca,cb),(ba,bb)=e.params['dimension_numbers']; assert not ba and not bb
            a,b=[x if is_sym(x) else np.vectorize(lambda v:Poly.const(Fraction(float(v))),otypes=[object])(np.asarray(x)) for x in ins]
            outs=[np.tensordot(a,b,axes=(list(ca),list(cb)))]
        elif name=='conv_general_dilated':
            outs=[conv(ins[0],ins[1],e.params)]
        else: raise NotImplementedError(name)
        for v,o in zip(e.outvars,outs): env[v]=o
    return [read(v) for v in jaxpr.outvars]

def conv(lhs,rhs,p):
    dn=p['dimension_numbers']; G=p['feature_group_count']; assert p['batch_group_count']==1
    tosym=lambda x: x if is_sym(x) else np.vectorize(lambda v:Poly.const(Fraction(float(v))),otypes=[object])(np.asarray(x))
    lhs=np.transpose(tosym(lhs),dn.lhs_spec)  # N C spatial
    rhs=np.transpose(tosym(rhs),dn.rhs_spec)  # O I spatial
    N,C=lhs.shape[:2]; O,I=rhs.shape[:2]; nd=lhs.ndim-2
    ld=p['lhs_dilation'] or (1,)*nd; rd=p['rhs_dilation'] or (1,)*nd; st=p['window_strides']; pad=p['padding']
    insp=lhs.shape[2:]; ksp=rhs.shape[2:]
    dil=[(insp[d]-1)*ld[d]+1 if insp[d]>0 else 0 for d in range(nd)]
    outsp=[(dil[d]+pad[d][0]+pad[d][1]-((ksp[d]-1)*rd[d]+1))//st[d]+1 for d in range(nd)]
    out=np.empty((N,O)+tuple(outsp),dtype=object)
    Cg=C//G; Og=O//G; assert I==Cg
    zero=Poly.const(0)
    for n in range(N):
        for o in range(O):
            g=o//Og
            for op in itertools.product(*[range(s) for s in outsp]):
                acc={}
                tot=zero
                for kp in itertools.product(*[range(s) for s in ksp]):
                    pos=[]; ok=True
                    for d in range(nd):
                        q=op[d]*st[d]+kp[d]*rd[d]-pad[d][0]
                        if q<0 or q>=dil[d] or q%ld[d]: ok=False;break
                        pos.append(q//ld[d])
                    if not ok: continue
                    for i in range(I):
                        tot=tot+lhs[(n,g*Cg+i)+tuple(pos)]*rhs[(o,i)+kp]
                out[(n,o)+op]=tot
    inv=np.argsort(dn.out_spec)
    return np.transpose(out,inv)

if __name__=='__main__':
    import ginjax.geometric as geom
    D=2; N=4; k,kp=1,1; M=3
    ops=geom.make_all_operators(D)
    ishape=(1,1,N,N)+(D,)*k; fshape=(1,1,M,M)+(D,)*kp
    nv=[0]
    def symarr(shape):
        a=np.empty(shape,dtype=object); f=a.reshape(-1)
        for i in range(a.size): f[i]=Poly.var(nv[0]); nv[0]+=1
        return a
    A=symarr(ishape); C=symarr(fshape)
    t0=time.time()
    def fconv(a,c): return geom.convolve(D,a,c,True,1,None,None,1)
    jc=jax.make_jaxpr(fconv)(jnp.zeros(ishape),jnp.zeros(fshape))
    out,=[o for o in run(jc.jaxpr,jc.consts,[A,C]) if is_sym(o)]
    print('conv exec',time.time()-t0,out.shape)
    tot=0; tz=0
    for gi,g in enumerate(ops):
        t1=time.time()
        rot=lambda x,par: geom.times_group_element(D,x,par,g)
        jA=jax.make_jaxpr(lambda x: rot(x,0))(jnp.zeros(ishape[2:])); gA=run(jA.jaxpr,jA.consts,[A[0,0]])[0][None,None]
        jC=jax.make_jaxpr(lambda x: rot(x,1))(jnp.zeros(fshape[2:])); gC=run(jC.jaxpr,jC.consts,[C[0,0]])[0][None,None]
        lhs=[o for o in run(jc.jaxpr,jc.consts,[gA,gC]) if is_sym(o)][0]
        jO=jax.make_jaxpr(lambda x: rot(x,1))(jnp.zeros(out.shape[2:])); rhs=run(jO.jaxpr,jO.consts,[out[0,0]])[0][None,None]
        smt=["(set-logic QF_NRA)"]+[f"(declare-const x{i} Real)" for i in range(nv[0])]
        dis=[f"(not (= {a.smt()} {b.smt()}))" for a,b in zip(lhs.ravel(),rhs.ravel())]
        smt.append("(assert (or "+" ".join(dis)+"))")
        t2=time.time()
        s=z3.Solver(); s.from_string("\n".join(smt)); r=s.check()
        tz+=time.time()-t2
        print(gi,r,'exec',round(t2-t1,2),'z3',round(time.time()-t2,2))
    # canary: wrong parity on output
    g=ops[1]
    rot=lambda x,par: geom.times_group_element(D,x,par,g)
    jA=jax.make_jaxpr(lambda x: rot(x,0))(jnp.zeros(ishape[2:])); gA=run(jA.jaxpr,jA.consts,[A[0,0]])[0][None,None]
    jC=jax.make_jaxpr(lambda x: rot(x,1))(jnp.zeros(fshape[2:])); gC=run(jC.jaxpr,jC.consts,[C[0,0]])[0][None,None]
    lhs=[o for o in run(jc.jaxpr,jc.consts,[gA,gC]) if is_sym(o)][0]
    jO=jax.make_jaxpr(lambda x: rot(x,0))(jnp.zeros(out.shape[2:])); rhs=run(jO.jaxpr,jO.consts,[out[0,0]])[0][None,None]
    smt=["(set-logic QF_NRA)"]+[f"(declare-const x{i} Real)" for i in range(nv[0])]
    dis=[f"(not (= {a.smt()} {b.smt()}))" for a,b in zip(lhs.ravel(),rhs.ravel())]
    smt.append("(assert (or "+" ".join(dis)+"))")
    s=z3.Solver(); s.from_string("\n".join(smt)); t2=time.time(); r=s.check(); print('canary',g.tolist(),r,time.time()-t2)
    if r==z3.sat:
        m=s.model(); print([ (str(d),str(m[d])) for d in m.decls()][:6])
