import z3, time, numpy as np, itertools, sys
import jax.numpy as jnp
import ginjax.geometric as geom
D=2; N=int(sys.argv[1]); P=2; k=1; par=int(sys.argv[2])
ops=geom.make_all_operators(D)
shape=(N,N,D)
X=np.empty(shape,dtype=object)
for idx in itertools.product(*[range(s) for s in shape]): X[idx]=z3.Real('x_'+'_'.join(map(str,idx)))
def act(A,g,par):
    n=A.size; basis=np.arange(1,n+1,dtype=np.float32).reshape(A.shape)
    out=np.asarray(geom.times_group_element(D,jnp.asarray(basis),par,g))
    flat=A.ravel(); res=np.empty(out.shape,dtype=object)
    for idx in np.ndindex(out.shape):
        v=out[idx]; e=flat[int(abs(round(v)))-1]; res[idx]= e if v>0 else -e
    return res
cons=[]; cache={}
def norm(vec):
    key=tuple(sorted(str(z3.simplify(v*v)) for v in vec))
    if key not in cache:
        s=z3.Real(f'n{len(cache)}'); cache[key]=s; cons.extend([s>=0, s*s==sum(v*v for v in vec)])
    return cache[key]
tie=[]
def pool(A, record_ties=False):
    M=A.shape[0]//P; out=np.empty((M,M,D),dtype=object)
    for a in range(M):
        for b in range(M):
            pix=[A[a*P+i,b*P+j] for i in range(P) for j in range(P)]   # row-major patch order as conv_general_dilated_patches
            cs=[norm(list(p)) for p in pix]
            if record_ties: tie.extend(cs[i]!=cs[j] for i in range(len(cs)) for j in range(i))
            for c in range(D):
                e=pix[-1][c]
                for i in reversed(range(len(pix)-1)):
                    first=z3.And([cs[i]>cs[j] for j in range(i)]+[cs[i]>=cs[j] for j in range(i+1,len(pix))])
                    e=z3.If(first,pix[i][c],e)
                out[a,b,c]=e
    return out
base=pool(X,True)
for gi,g in enumerate(ops):
    lhs=pool(act(X,g,par)); rhs=act(base,g,par)
    s=z3.Solver(); s.set('timeout',120000)
    s.add(cons+tie+[z3.Or([a!=b for a,b in zip(lhs.ravel(),rhs.ravel())])])
    t=time.time(); r=s.check(); print(gi,r,round(time.time()-t,2))
# without tie-freeness the property is false (first-index tie-break is not equivariant): expect sat
g=ops[1]; lhs=pool(act(X,g,par)); rhs=act(base,g,par)
s=z3.Solver(); s.set('timeout',120000); s.add(cons+[z3.Or([a!=b for a,b in zip(lhs.ravel(),rhs.ravel())])]); t=time.time(); print('no-tie-assumption',s.check(),round(time.time()-t,2))
