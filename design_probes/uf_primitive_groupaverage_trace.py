import jax, jax.numpy as jnp, numpy as np, equinox as eqx
from jax.extend import core as jcore
import ginjax.geometric as geom, ginjax.ml as ml, ginjax.models as models
uf_p = jcore.Primitive("uf_model"); uf_p.multiple_results=False
from jax.core import ShapedArray
uf_p.def_abstract_eval(lambda x, *, name, out_size: ShapedArray((out_size,), x.dtype))
class UFModel(models.MultiImageModule):
    name: str = eqx.field(static=True)
    out_sig: tuple = eqx.field(static=True)
    def __call__(self, x, aux=None):
        vec = x.to_vector()
        sd = x.get_spatial_dims(); D=x.D
        sizes=[c*int(np.prod(sd))*D**k for (k,p),c in self.out_sig]
        y = uf_p.bind(vec, name=self.name, out_size=sum(sizes))
        out = geom.MultiImage({}, D, x.is_torus); i=0
        for ((k,p),c),s in zip(self.out_sig,sizes):
            out.append(k,p,y[i:i+s].reshape((c,)+sd+(D,)*k)); i+=s
        return out, aux
ops = geom.make_all_operators(2)
m = models.GroupAverage(UFModel('f', (((0,0),1),((1,0),1))), ops, always_average=True)
x = geom.MultiImage({(0,0):jnp.ones((1,3,3)),(1,0):jnp.ones((2,3,3,2))},2,True)
jp = jax.make_jaxpr(lambda xx: m(xx)[0])(x)
import collections
print(collections.Counter(e.primitive.name for e in jp.jaxpr.eqns))
