import z3, time, numpy as np, sys
import jax.numpy as jnp
import ginjax.geometric as geom
D=int(sys.argv[1]); N=int(sys.argv[2]); k=1
ops=geom.make_all_operators(D)
shape=(N,)*D+(D,)*k; n=int(np.prod(shape))
def signed_perm(g,par=0):
    # action on flattened vector as (idx, sign): out[j] = sign[j]*x[idx[j]]
    basis=np.arange(1,n+1,dtype=np.float32).reshape(shape)
    out=np.asarray(geom.times_group_element(D,jnp.asarray(basis),par,g)).ravel()
    return (np.abs(out).round().astype(int)-1, np.sign(out).astype(int))
xs=[z3.Real(f'x{i}') for i in range(n)]
fs=[z3.Function(f'f{j}',*([z3.RealSort()]*(n+1))) for j in range(n)]
def act(g,vec):
    idx,sg=signed_perm(g); return [vec[i] if s>0 else -vec[i] for i,s in zip(idx,sg)]
def GA(vec,opsl):
    tot=[0]*n
    for g in opsl:
        y=[f(*act(g,vec)) for f in fs]
        r=act(g.T,y)
        tot=[a+b for a,b in zip(tot,r)]
    return [t/len(opsl) for t in tot]
base=GA(xs,ops)
tt=0
for hi,h in enumerate(ops[:8]):
    lhs=GA(act(h,xs),ops); rhs=act(h,base)
    s=z3.Solver(); s.set('timeout',120000); s.add(z3.Or([a!=b for a,b in zip(lhs,rhs)])); t=time.time(); r=s.check(); tt+=time.time()-t
    print(hi,r,round(time.time()-t,2))
# mutation: use g instead of g.T
def GAbad(vec,opsl):
    tot=[0]*n
    for g in opsl:
        y=[f(*act(g,vec)) for f in fs]; r=act(g,y); tot=[a+b for a,b in zip(tot,r)]
    return [t/len(opsl) for t in tot]
h=ops[3]; lhs=GAbad(act(h,xs),ops); rhs=act(h,GAbad(xs,ops))
s=z3.Solver(); s.add(z3.Or([a!=b for a,b in zip(lhs,rhs)])); t=time.time(); print('mut',s.check(),round(time.time()-t,2))
