import collections, numpy as np, jax, jax.numpy as jnp, equinox as eqx
from jax.extend import core as jcore
from jax.core import ShapedArray
import ginjax.geometric as geom, ginjax.ml as ml, ginjax.models as models
uf_p = jcore.Primitive("uf_layer")
uf_p.def_abstract_eval(lambda x, *, name, out_size: ShapedArray((out_size,), x.dtype))
class Stub(eqx.Module):
    name: str = eqx.field(static=True)
    real: object = eqx.field(static=True)   # the real layer, only used for shapes
    aux: bool = eqx.field(static=True)
    def __call__(self, x, *a):
        shp = jax.eval_shape(lambda xx: (self.real(xx, *a)[0] if self.aux else self.real(xx)), x)
        sizes = {k: int(np.prod(v.shape)) for k, v in shp.items()}
        y = uf_p.bind(x.to_vector(), name=self.name, out_size=sum(sizes.values()))
        out = geom.MultiImage({}, x.D, x.is_torus); i = 0
        for k, v in shp.items():
            out.append(k[0], k[1], y[i:i+sizes[k]].reshape(v.shape)); i += sizes[k]
        return (out, a[0] if a else None) if self.aux else out
D=2; ops=geom.make_all_operators(D); key=jax.random.PRNGKey(0)
filt=geom.get_invariant_filters([3],[0,1,2],[0,1],D,ops)
ik=geom.Signature((((0,0),1),((1,0),1))); ok=geom.Signature((((1,0),1),))
m=models.ResNet(D,ik,ok,depth=2,num_blocks=1,num_conv=1,equivariant=True,conv_filters=filt,key=key)
import copy, dataclasses
LEAF=(ml.ConvContract, ml.GroupNorm, ml.VectorNeuronNonlinear, ml.MaxNormPool)
cnt=[0]
def rebuild(o):
    if isinstance(o, LEAF):
        cnt[0]+=1; return Stub(f'{type(o).__name__}{cnt[0]}', o, False)
    if isinstance(o, eqx.Module):
        c=copy.copy(o)
        for f in dataclasses.fields(o):
            object.__setattr__(c, f.name, rebuild(getattr(o, f.name)))
        return c
    if isinstance(o, list): return [rebuild(v) for v in o]
    if isinstance(o, tuple): return tuple(rebuild(v) for v in o)
    if isinstance(o, dict): return {k: rebuild(v) for k,v in o.items()}
    return o
for name, mk, N in [('resnet', lambda: models.ResNet(D,ik,ok,depth=2,num_blocks=1,num_conv=1,equivariant=True,conv_filters=filt,key=key),4),
                 ('unet', lambda: models.UNet(D,ik,ok,depth=2,num_downsamples=1,num_conv=1,equivariant=True,conv_filters=filt,upsample_filters=geom.get_invariant_filters([2],[0,1,2],[0,1],D,ops),key=key),4),
                 ('dil', lambda: models.DilResNet(D,ik,ok,depth=2,num_blocks=1,equivariant=True,conv_filters=filt,key=key),4)]:
    m=mk(); cnt[0]=0; m2=rebuild(m)
    x=geom.MultiImage({(0,0):jnp.ones((1,N,N)),(1,0):jnp.ones((1,N,N,2))},D,True)
    jp=jax.make_jaxpr(lambda xx: m2(xx)[0])(x)
    print(name, cnt[0], dict(collections.Counter(e.primitive.name for e in jp.jaxpr.eqns)))
    print('  ', [ (e.params['name'], e.invars[0].aval.shape[0], e.outvars[0].aval.shape[0]) for e in jp.jaxpr.eqns if e.primitive.name=='uf_layer'][:8])
