import z3, time, numpy as np, sys
from fractions import Fraction
import jax.numpy as jnp
import ginjax.geometric as geom
D=int(sys.argv[1]); M=int(sys.argv[2]); k=int(sys.argv[3]); par=int(sys.argv[4])
ops=geom.make_all_operators(D)
t=time.time(); F=geom.get_unique_invariant_filters(M,k,par,D,ops); print('gen',len(F),round(time.time()-t,1))
shape=(M,)*D+(D,)*k; n=int(np.prod(shape))
def signed_perm(g):
    basis=np.arange(1,n+1,dtype=np.float32).reshape(shape)
    out=np.asarray(geom.times_group_element(D,jnp.asarray(basis),par,g)).ravel()
    return (np.abs(out).round().astype(int)-1, np.sign(out).astype(int))
X=[z3.Real(f'x{i}') for i in range(n)]
s=z3.Solver()
for g in ops:
    idx,sg=signed_perm(g)
    for j in range(n):
        s.add(X[j]==(X[idx[j]] if sg[j]>0 else -X[idx[j]]))
Fm=[[Fraction(float(v)) for v in np.asarray(f.data).ravel()] for f in F]
for row in Fm:
    s.add(z3.Sum([z3.RealVal(str(c))*X[j] for j,c in enumerate(row) if c])==0)
s.add(z3.Or([x!=0 for x in X]))
t=time.time(); print('completeness',s.check(),round(time.time()-t,2))
# independence
w=[z3.Real(f'w{i}') for i in range(len(F))]
s2=z3.Solver()
for j in range(n):
    s2.add(z3.Sum([z3.RealVal(str(Fm[i][j]))*w[i] for i in range(len(F)) if Fm[i][j]]+[z3.RealVal(0)])==0)
s2.add(z3.Or([x!=0 for x in w]))
t=time.time(); print('independence',s2.check(),round(time.time()-t,2))
# burnside
def fixedpix(g):
    c=(M-1)/2; cnt=0
    import itertools
    for p in itertools.product(range(M),repeat=D):
        q=np.rint((np.array(p)-c)@g+c).astype(int)
        cnt+= tuple(q)==p
    return cnt
dim=sum(fixedpix(g)*np.trace(g)**k*(round(np.linalg.det(g))**par) for g in ops)/len(ops)
print('burnside',dim)
